// Kani contracts for src/sim/frame.rs (overlaid as `crate::sim::frame::verif_kani`).
// C27 (frame depth and debug frames), C16 (no panic in push/pop).
use super::*;

pub(crate) fn stub_random_state() -> std::hash::RandomState {
    // RandomState::new() reads OS randomness (not modelled by Kani). Hash keys do not affect map semantics.
    unsafe { std::mem::transmute::<[u64; 2], std::hash::RandomState>([0, 0]) }
}

impl FrameStack {
    /// A frame stack at an arbitrary depth without debug frames (`debug_frames = false`).
    pub(crate) fn verif_new(depth: u64) -> Self {
        FrameStack { frame_no: depth, trap_defns: HashMap::new(), sr_defns: HashMap::new(), frames: None }
    }
    pub(crate) fn verif_with_frames(depth: u64, frames: Vec<Frame>) -> Self {
        FrameStack { frame_no: depth, trap_defns: HashMap::new(), sr_defns: HashMap::new(), frames: Some(frames) }
    }
    pub(crate) fn verif_frames_len(&self) -> Option<usize> { self.frames.as_ref().map(|f| f.len()) }
}

/// L0: push_frame / pop_frame without debug frames: depth +1 / saturating -1, never panics below u64::MAX.
#[kani::proof]
#[kani::stub(std::hash::RandomState::new, stub_random_state)]
#[kani::unwind(9)]
fn depth_contract() {
    let d: u64 = kani::any();
    kani::assume(d < u64::MAX);
    let mut fs = FrameStack::verif_new(d);
    let regs = RegFile::verif_any();
    let mem = MemArray::verif_any();
    let ft = match kani::any::<u8>() % 3 { 0 => FrameType::Subroutine, 1 => FrameType::Trap, _ => FrameType::Interrupt };
    kani::cover!(d == 0, "depth zero reachable");
    fs.push_frame(kani::any(), kani::any(), ft, &regs, &mem);
    assert!(fs.len() == d + 1, "C27.push: depth + 1");
    assert!(fs.frames().is_none(), "C27.push: no frame list without debug frames");
    fs.pop_frame();
    assert!(fs.len() == d, "C27.pop: depth - 1");
    let mut z = FrameStack::verif_new(0);
    z.pop_frame();
    assert!(z.len() == 0 && z.is_empty(), "C27.pop: saturates at zero");
}

/// C27 with debug frames, no signature registered for the callee: the frame records caller, callee, kind.
#[kani::proof]
#[kani::stub(std::hash::RandomState::new, stub_random_state)]
#[kani::unwind(9)]
fn debug_frame_no_signature() {
    let d: u64 = kani::any();
    kani::assume(d < u64::MAX);
    let mut frames: Vec<Frame> = Vec::with_capacity(4);
    let pre: bool = kani::any();
    if pre { frames.push(Frame { caller_addr: 1, callee_addr: 2, frame_type: FrameType::Trap, frame_ptr: None, arguments: Vec::new() }); }
    let n0 = frames.len();
    let mut fs = FrameStack::verif_with_frames(d, frames);
    let regs = RegFile::verif_any();
    let mem = MemArray::verif_any();
    let (caller, callee): (u16, u16) = (kani::any(), kani::any());
    let k: u8 = kani::any();
    kani::assume(k < 3);
    let ft = match k { 0 => FrameType::Subroutine, 1 => FrameType::Trap, _ => FrameType::Interrupt };
    fs.push_frame(caller, callee, ft, &regs, &mem);
    assert!(fs.len() == d + 1, "C27.debug: depth + 1");
    let fr = fs.frames().unwrap();
    assert!(fr.len() == n0 + 1, "C27.debug: exactly one entry added");
    let top = &fr[n0];
    assert!(top.caller_addr == caller && top.callee_addr == callee && top.frame_type == ft, "C27.debug: entry holds caller, callee and kind");
    assert!(top.frame_ptr.is_none() && top.arguments.is_empty(), "C27.debug: no signature -> no arguments");
    fs.pop_frame();
    assert!(fs.len() == d && fs.frames().unwrap().len() == n0, "C27.debug: pop removes the entry");
}

/// C27: arguments described by a registered pass-by-register signature (<= 2 parameters) or the standard
/// calling convention (<= 2 parameters, read from FP+4.. where FP = R6 - 4).
#[kani::proof]
#[kani::unwind(9)]
fn get_arguments_contract() {
    let regs = RegFile::verif_any();
    let mem = MemArray::verif_any();
    let snapshot = regs.verif_snapshot();
    let n: usize = kani::any();
    kani::assume(n <= 2);
    let (a, b): (u8, u8) = (kani::any(), kani::any());
    kani::assume(a < 8 && b < 8);
    let (ra, rb) = (Reg::try_from(a).unwrap(), Reg::try_from(b).unwrap());
    let mut params: Vec<(String, Reg)> = Vec::with_capacity(2);
    if n >= 1 { params.push((String::new(), ra)); }
    if n >= 2 { params.push((String::new(), rb)); }
    let pl = ParameterList::PassByRegister { params, ret: None };
    let args = pl.get_arguments(&regs, &mem, kani::any());
    assert!(args.len() == n, "C27.args: one argument per parameter");
    if n >= 1 { assert!(args[0] == snapshot[a as usize], "C27.args: first argument from its register"); }
    if n >= 2 { assert!(args[1] == snapshot[b as usize], "C27.args: second argument from its register"); }

    let fp: u16 = kani::any();
    let mut names: Vec<String> = Vec::with_capacity(2);
    if n >= 1 { names.push(String::new()); }
    if n >= 2 { names.push(String::new()); }
    let pl = ParameterList::CallingConvention { params: names };
    let args = pl.get_arguments(&regs, &mem, fp);
    assert!(args.len() == n, "C27.args: one argument per parameter (calling convention)");
    if n >= 1 { assert!(args[0] == mem[fp.wrapping_add(4)], "C27.args: first argument at FP+4"); }
    if n >= 2 { assert!(args[1] == mem[fp.wrapping_add(5)], "C27.args: second argument at FP+5"); }
}
