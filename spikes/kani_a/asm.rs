}
#[cfg(kani)]
mod verif_kani {
    use super::*;
    use crate::ast::Label;

    pub(crate) fn stub_random_state() -> std::hash::RandomState {
        unsafe { std::mem::transmute::<[u64; 2], std::hash::RandomState>([0, 0]) }
    }

    fn any_reg() -> Reg { let r: u8 = kani::any(); kani::assume(r < 8); Reg::try_from(r).unwrap() }

    #[kani::proof]
    #[kani::stub(std::hash::RandomState::new, stub_random_state)]
    #[kani::unwind(6)]
    fn replace_pc_offset_label9() {
        let addr: u16 = kani::any();
        let pc: u16 = kani::any();
        let mut label_map = HashMap::new();
        label_map.insert(String::from("A"), SymbolData { addr, src_start: 0, external: false });
        let sym = SymbolTable { label_map, rel_map: HashMap::new(), debug_symbols: None };
        let r = replace_pc_offset::<9>(PCOffset::Label(Label::new(String::from("a"), 3..4)), pc, &sym);
        let d = addr.wrapping_sub(pc) as i16;
        match r {
            Ok(off) => { assert!(off.get() == d); assert!(d >= -256 && d <= 255); }
            Err(e) => { assert!(d < -256 || d > 255); assert!(matches!(e.kind, AsmErrKind::OffsetNewErr(_))); }
        }
    }

    #[kani::proof]
    #[kani::stub(std::hash::RandomState::new, stub_random_state)]
    #[kani::unwind(6)]
    fn assemble_small_layout() {
        let orig: u16 = kani::any();
        let n: u16 = kani::any();
        kani::assume(n != 0);
        let fillv: u16 = kani::any();
        let ast = vec![
            Stmt { labels: vec![], nucleus: StmtKind::Directive(Directive::Orig(Offset::new_trunc(orig))), span: 0..5 },
            Stmt { labels: vec![], nucleus: StmtKind::Directive(Directive::Blkw(Offset::new_trunc(n))), span: 6..10 },
            Stmt { labels: vec![], nucleus: StmtKind::Directive(Directive::Fill(PCOffset::Offset(Offset::new_trunc(fillv)))), span: 11..15 },
            Stmt { labels: vec![], nucleus: StmtKind::Directive(Directive::End), span: 16..20 },
        ];
        let sym = SymbolTable::new(&ast, None);
        let fits = (orig as u32) + (n as u32) + 1 <= 0xFE00;
        assert!(sym.is_ok() == fits);
    }
}
