// Helpers for the Kani contracts of src/sim/mem.rs (overlaid as `crate::sim::mem::verif_kani`): constructors of symbolic
// machine state used by the simulator harnesses.  The obligations themselves are in sim__mem__h.rs.
// C15 (initialization tracking is sound), L0 leaf contracts of `Word` used by C14/C16, and
// constructors of symbolic machine state used by the simulator harnesses.
use super::*;

impl kani::Arbitrary for Word {
    fn any() -> Self { Word { data: kani::any(), init: kani::any() } }
}
impl MemArray {
    /// A memory whose 65536 words are all nondeterministic (fresh heap object; CBMC treats the
    /// contents of an uninitialised allocation as arbitrary).
    #[cfg(not(verif_native))]
    pub(crate) fn verif_any() -> Self { MemArray(unsafe { Box::<[Word; 1 << 16]>::new_uninit().assume_init() }) }
    /// native replay of a counterexample (cfg verif_native is set only for `cargo kani playback` runs): a real, zeroed memory
    #[cfg(verif_native)]
    pub(crate) fn verif_any() -> Self { MemArray(vec![Word::verif_zero(); 1 << 16].into_boxed_slice().try_into().ok().unwrap()) }
}
impl RegFile {
    pub(crate) fn verif_any() -> Self { RegFile(kani::any()) }
    pub(crate) fn verif_from(a: [Word; 8]) -> Self { RegFile(a) }
    pub(crate) fn verif_snapshot(&self) -> [Word; 8] { self.0 }
}
impl Word {
    pub(crate) fn verif_mask(&self) -> u16 { self.init }
    pub(crate) fn verif_new(data: u16, init: u16) -> Word { Word { data, init } }
    pub(crate) const fn verif_zero() -> Word { Word { data: 0, init: 0 } }
}
