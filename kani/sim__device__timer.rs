// Kani contracts for src/sim/device/timer.rs (overlaid as `crate::sim::device::timer::verif_kani`).
// C34 leaf: `SampleRange::new` maps the std range forms to (start, end, inclusive) denoting the same set of
// values.  (The countdown and the interval lemma are the Verus unit `timer`.)
use super::*;

fn member(s: &SampleRange, t: u32) -> bool { s.start <= t && (if s.end_incl { t <= s.end } else { t < s.end }) }
#[kani::proof]
fn sample_range_new() {
    let (a, b, t): (u32, u32, u32) = (kani::any(), kani::any(), kani::any());
    assert!(member(&SampleRange::new(a..=b), t) == (a <= t && t <= b), "C34.range: a..=b");
    assert!(member(&SampleRange::new(a..b), t) == (a <= t && t < b), "C34.range: a..b");
    assert!(member(&SampleRange::new(a..), t) == (a <= t), "C34.range: a..");
    assert!(member(&SampleRange::new(..b), t) == (t < b), "C34.range: ..b");
    assert!(member(&SampleRange::new(..=b), t) == (t <= b), "C34.range: ..=b");
    assert!(member(&SampleRange::new(..), t), "C34.range: ..");
    let s = SampleRange::new(a..=a);
    assert!(s.start == a && s.end == a && s.end_incl, "C34.range: an exact count n is the range n..=n");
    // RangeBounds view of a SampleRange denotes the same set
    let r = SampleRange::new(a..b);
    assert!(r.contains(&t) == (a <= t && t < b), "C34.range: get_range() denotes the configured range");
}

// ---- try_generate_time against the contract the Verus unit `timer` assumes for it --------------------------------
// Only the generator's raw output (`StdRng::next_u32/next_u64`, ChaCha) is replaced -- by arbitrary words; rand's
// uniform-range reduction is verified through.  Checked: the timer asks for the range it was configured with
// (half-open for an exclusive end, closed for an inclusive one) and returns what it drew.
use rand::RngCore;
/// the generator's raw output: arbitrary words (the uniform-range reduction of the `rand` crate is verified through)
fn any_u32(_g: &mut rand::rngs::StdRng) -> u32 { kani::any() }
fn any_u64(_g: &mut rand::rngs::StdRng) -> u64 { kani::any() }
/// BOUNDED: the configured range is concrete per obligation (with symbolic bounds the 64-bit widening multiplication
/// of rand's range reduction did not finish in 15 min); the generator's output words are symbolic.
fn try_generate_time_case(start: u32, end: u32, end_incl: bool) {
    let range = SampleRange { start, end, end_incl };
    // the generator's state is never consulted (its output functions are stubbed): a zeroed block stands for it
    let generator: Box<rand::rngs::StdRng> = unsafe { Box::new(std::mem::zeroed()) };
    let mut t = TimerDevice { generator, range, time: kani::any(), vect: kani::any(), priority: kani::any(), enabled: kani::any() };
    let (time0, vect0, prio0, en0) = (t.time, t.vect, t.priority, t.enabled);
    let got = t.try_generate_time();
    assert!(member(&range, got), "C34.sample: the count drawn lies inside the configured range (exclusive end respected)");
    assert!(t.time == time0 && t.vect == vect0 && t.priority == prio0 && t.enabled == en0 && t.range.start == range.start && t.range.end == range.end && t.range.end_incl == range.end_incl, "C34.sample: drawing a count changes nothing else");
    t.reset_remaining();
    assert!(member(&range, t.time), "C34.reset: reset_remaining reloads a count inside the range");
    std::mem::forget(t);
}
macro_rules! sample_harness {
    ($name:ident, $s:expr, $e:expr, $incl:expr) => {
        #[kani::proof]
        #[kani::stub(<rand::rngs::StdRng as RngCore>::next_u32, any_u32)]
        #[kani::stub(<rand::rngs::StdRng as RngCore>::next_u64, any_u64)]
        #[kani::unwind(4)]
        fn $name() { try_generate_time_case($s, $e, $incl) }
    };
}
sample_harness!(sample_exclusive_5_6, 5, 6, false);        // an exact count written as a half-open range
sample_harness!(sample_exclusive_3_7, 3, 7, false);
sample_harness!(sample_inclusive_3_7, 3, 7, true);
sample_harness!(sample_inclusive_50_50, 50, 50, true);     // the default timer
