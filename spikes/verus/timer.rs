use vstd::prelude::*;
verus! {

#[verifier::external_body]
pub struct StdRng { _p: core::marker::PhantomData<()> }

#[derive(Clone, Copy)]
pub struct SampleRange {
    pub start: u32,
    pub end: u32,
    pub end_incl: bool
}
impl SampleRange {
    pub open spec fn contains(self, t: u32) -> bool {
        self.start <= t && (if self.end_incl { t <= self.end } else { t < self.end })
    }
    pub open spec fn nonempty(self) -> bool {
        if self.end_incl { self.start <= self.end } else { self.start < self.end }
    }
}

pub struct Interrupt { pub vect: u8, pub priority: u8 }
pub fn vectored(vect: u8, priority: u8) -> (r: Interrupt) ensures r.vect == vect { Interrupt { vect, priority } }

pub struct TimerDevice {
    pub generator: Box<StdRng>,
    pub range: SampleRange,
    pub time: u32,
    pub vect: u8,
    pub priority: u8,
    pub enabled: bool,
}

impl TimerDevice {
    #[verifier::external_body]
    fn try_generate_time(&mut self) -> (t: u32)
        requires old(self).range.nonempty(),
        ensures final(self).range == old(self).range, final(self).time == old(self).time, final(self).enabled == old(self).enabled,
                final(self).vect == old(self).vect, final(self).priority == old(self).priority,
                old(self).range.contains(t),
    { unimplemented!() }

    pub fn reset_remaining(&mut self)
        requires old(self).range.nonempty(),
        ensures final(self).range == old(self).range, final(self).enabled == old(self).enabled, old(self).range.contains(final(self).time),
    {
        self.time = self.try_generate_time();
    }

    fn poll_interrupt(&mut self) -> (r: Option<Interrupt>)
        requires old(self).range.nonempty(),
        ensures
            final(self).range == old(self).range, final(self).enabled == old(self).enabled,
            !old(self).enabled ==> r is None && final(self).time == old(self).time,
            old(self).enabled && old(self).time == 0 ==> r is None && old(self).range.contains(final(self).time),
            old(self).enabled && old(self).time == 1 ==> r is Some && final(self).time == 0,
            old(self).enabled && old(self).time > 1 ==> r is None && final(self).time == old(self).time - 1,
    {
        if !self.enabled { return None };
        
        match self.time {
            0 => {
                self.reset_remaining();
                None
            },
            1 => {
                self.time = 0;
                Some(vectored(self.vect, self.priority))
            },
            _ => {
                self.time -= 1;
                None
            }
        }
    }
}
} // verus!
fn main() {}
