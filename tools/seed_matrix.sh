#!/bin/bash
# usage: seed_matrix.sh [parallel jobs] [filter regex on seed ids]   -> appends to /verif/seeded/matrix.log
P=${1:-2}; F=${2:-.}
grep -v '^#' /verif/tools/seed_matrix.txt | grep -E "^($F)" | while read sid prop only; do echo "$sid $prop ${only:--}"; done | \
  xargs -P $P -L 1 bash -c 'o="$2"; [ "$o" = "-" ] && o=""; VERIF_JOBS=${VERIF_JOBS:-6} VERIF_ONLY="$o" /verif/tools/try_seed.sh $0 $1 quick' | tee -a /verif/seeded/matrix.log
