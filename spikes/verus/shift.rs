use vstd::prelude::*;
verus! {

pub enum AsmErrKind { WrappingBlock, BlockInIO }
pub const IO_START: u16 = 0xFE00;

pub struct Cursor {
    pub lc: u16,
    pub overflowed: bool,
}

pub uninterp spec fn default_of<T>() -> T;
pub assume_specification<T: core::default::Default> [ core::mem::take::<T> ] (dest: &mut T) -> (r: T)
    ensures r == *old(dest), *final(dest) == default_of::<T>();
pub assume_specification [ u16::wrapping_neg ] (x: u16) -> (r: u16)
    ensures r as int == (if x == 0 { 0int } else { 0x10000 - x as int });
pub broadcast axiom fn default_u16() ensures #[trigger] default_of::<u16>() == 0u16;

impl Cursor {
    pub open spec fn fits(self, n: u16) -> bool {
        n == 0 || (!self.overflowed && self.lc as int + n as int <= 0xFE00)
    }
            fn shift(&mut self, n: u16) -> (res: Result<(), AsmErrKind>)
                ensures
                    old(self).fits(n) <==> res is Ok,
                    res is Ok ==> final(self).lc as int == old(self).lc as int + n as int && final(self).overflowed == old(self).overflowed,
                    res is Err && !old(self).overflowed && old(self).lc as int + n as int <= 0x10000 ==> res == Err::<(), AsmErrKind>(AsmErrKind::BlockInIO),
                    res is Err && (old(self).overflowed || old(self).lc as int + n as int > 0x10000) ==> res == Err::<(), AsmErrKind>(AsmErrKind::WrappingBlock),
            {
                broadcast use default_u16;
                if n == 0 { return Ok(()); }

                match (self.overflowed, self.lc.checked_add(n)) {
                    (true, _) => Err(AsmErrKind::WrappingBlock),
                    (false, Some(new_lc)) if new_lc > IO_START => Err(AsmErrKind::BlockInIO),
                    (false, Some(new_lc)) => {
                        self.lc = new_lc;
                        Ok(())
                    },
                    (false, None) => {
                        let lc = std::mem::take(&mut self.lc);
                        self.overflowed = true;
                        // If aligns exactly, it can't be considered wrapping over
                        Err(match lc == n.wrapping_neg() {
                            true => AsmErrKind::BlockInIO,
                            false => AsmErrKind::WrappingBlock,
                        })
                    }
                }
            }
}
} // verus!
fn main() {}
