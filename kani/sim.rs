// Kani contracts for src/sim.rs (overlaid as `crate::sim::verif_kani`).
//
// Layers (DESIGN.md section 3.1):
//   L0  leaf contracts: PSR, set_cc, prefetch_pc, in_alloca, default_mem_ctx, InternalRegister
//   L1  read_mem / write_mem on the real bodies over a nondeterministic 64K memory
//   L2  step_in / step / _step_inner / handle_interrupt / call_interrupt / call_subroutine / set_pc /
//       offset_pc with read_mem / write_mem replaced by their L1 contract (a lazily initialised
//       symbolic memory `MM` that records every access), compared against the independent ISA
//       reference `isa::step` (written from Patt & Patel App. A; shares no code with sim.rs)
//   relational harnesses for C12 (real vs virtual traps), C14 (strict vs non-strict),
//   run loops with `step` replaced by its contract (C13), reset (C30), mmap_internal (C32).
use super::*;
use super::frame::verif_kani::stub_random_state;

// =================================================================================================
// symbolic machine state

pub(crate) fn flags(strict: bool, real: bool, ignore: bool) -> SimFlags {
    SimFlags { strict, use_real_traps: real, machine_init: MachineInitStrategy::Known { value: 0 }, debug_frames: false, ignore_privilege: ignore }
}
pub(crate) fn any_sim(fl: SimFlags) -> Simulator {
    Simulator {
        mem: MemArray::verif_any(),
        reg_file: RegFile::verif_any(),
        pc: kani::any(),
        psr: PSR(kani::any()),
        saved_sp: kani::any(),
        frame_stack: FrameStack::verif_new(kani::any()),
        alloca: Box::new([]),
        instructions_run: kani::any(),
        prefetch: kani::any(),
        pause_condition: Default::default(),
        observer: Default::default(),
        os_loaded: true,
        mcr: Arc::default(),
        flags: fl,
        breakpoints: Default::default(),
        ireg_mmap: HashMap::new(),
        device_handler: DeviceHandler::verif_unused(),
    }
}
/// Scalar machine state (everything a step may change except memory).
#[derive(Clone, Copy, PartialEq, Eq)]
pub(crate) struct Scalars { pub r: [Word; 8], pub pc: u16, pub psr: u16, pub ssp: Word, pub depth: u64, pub icount: u64 }
pub(crate) fn scalars(s: &Simulator) -> Scalars {
    Scalars { r: s.reg_file.verif_snapshot(), pc: s.pc, psr: s.psr.get(), ssp: s.saved_sp, depth: s.frame_stack.len(), icount: s.instructions_run }
}
pub(crate) fn sim_from(sc: Scalars, fl: SimFlags) -> Simulator {
    let mut s = any_sim(fl);
    s.reg_file = RegFile::verif_from(sc.r);
    s.pc = sc.pc; s.psr = PSR(sc.psr); s.saved_sp = sc.ssp;
    s.frame_stack = FrameStack::verif_new(sc.depth);
    s.instructions_run = sc.icount;
    s
}
pub(crate) fn any_scalars() -> Scalars {
    Scalars { r: kani::any(), pc: kani::any(), psr: kani::any(), ssp: kani::any(), depth: kani::any(), icount: kani::any() }
}

// =================================================================================================
// L1 contract of read_mem / write_mem as an executable abstraction: a lazily initialised symbolic
// memory.  `init` holds the pre-state value of every address touched so far (allocated on first
// use with an arbitrary value), `over` the words written during the step.  Every access is logged
// with the context flags it was made with.

pub(crate) const MMN: usize = 6;
#[derive(Clone, Copy)]
pub(crate) struct Access { pub write: bool, pub addr: u16, pub data: Word, pub privileged: bool, pub strict: bool, pub track: bool, pub io_effects: bool }
#[derive(Clone, Copy)]
pub(crate) struct MiniMem {
    pub init: [(u16, Word); MMN], pub n_init: usize,
    pub over: [(u16, Word); MMN], pub n_over: usize,
    pub log: [Option<Access>; 8], pub n_log: usize,
    pub io_reads: [(u16, Word); 4], pub n_io: usize, pub io_cursor: usize,
    pub overflow: bool,
}
const W0: Word = Word::verif_zero();
impl MiniMem {
    pub(crate) const fn new() -> Self {
        MiniMem { init: [(0, W0); MMN], n_init: 0, over: [(0, W0); MMN], n_over: 0, log: [None; 8], n_log: 0,
                  io_reads: [(0, W0); 4], n_io: 0, io_cursor: 0, overflow: false }
    }
    /// value of a non-I/O cell in the pre-state (allocated on first use)
    pub(crate) fn initial(&mut self, addr: u16) -> Word {
        let mut i = 0;
        while i < MMN { if i < self.n_init && self.init[i].0 == addr { return self.init[i].1; } i += 1; }
        let w: Word = kani::any();
        if self.n_init < MMN { self.init[self.n_init] = (addr, w); self.n_init += 1; } else { self.overflow = true; }
        w
    }
    /// current value of a non-I/O cell
    pub(crate) fn current(&mut self, addr: u16) -> Word {
        let mut i = MMN;
        while i > 0 { i -= 1; if i < self.n_over && self.over[i].0 == addr { return self.over[i].1; } }
        self.initial(addr)
    }
    pub(crate) fn store(&mut self, addr: u16, w: Word) {
        let mut i = 0;
        while i < MMN { if i < self.n_over && self.over[i].0 == addr { self.over[i].1 = w; return; } i += 1; }
        if self.n_over < MMN { self.over[self.n_over] = (addr, w); self.n_over += 1; } else { self.overflow = true; }
    }
    pub(crate) fn push_log(&mut self, a: Access) {
        if self.n_log < 8 { self.log[self.n_log] = Some(a); } else { self.overflow = true; }
        self.n_log += 1;
    }
}
pub(crate) static mut MM: MiniMem = MiniMem::new();
#[allow(static_mut_refs)]
pub(crate) fn mm() -> &'static mut MiniMem { unsafe { &mut MM } }

fn user_range(addr: u16) -> bool { addr >= 0x3000 && addr < 0xFE00 }

/// Contract stub of `Simulator::read_mem` for the default internal-register map (PSR@xFFFC, MCR@xFFFE).
/// Discharged against the real body by the L1 obligations `l1_read_*`.
pub(crate) fn contract_read_mem(s: &mut Simulator, addr: u16, ctx: MemAccessCtx) -> Result<Word, SimErr> {
    if !ctx.privileged && !user_range(addr) { return Err(SimErr::AccessViolation); }
    let m = mm();
    let w = if addr < 0xFE00 { m.current(addr) }
        else if addr == PSR_ADDR { Word::new_init(s.psr.get()) }
        else {
            // MCR, a device register, or the mirror cell of an unowned port: any value
            let w: Word = if addr == MCR_ADDR { Word::new_init((kani::any::<bool>() as u16) << 15) } else { kani::any() };
            if m.n_io < 4 { m.io_reads[m.n_io] = (addr, w); m.n_io += 1; } else { m.overflow = true; }
            w
        };
    m.push_log(Access { write: false, addr, data: w, privileged: ctx.privileged, strict: ctx.strict, track: ctx.track_access, io_effects: ctx.io_effects });
    Ok(w)
}
/// Contract stub of `Simulator::write_mem` for the default internal-register map.
pub(crate) fn contract_write_mem(s: &mut Simulator, addr: u16, data: Word, ctx: MemAccessCtx) -> Result<(), SimErr> {
    if !ctx.privileged && !user_range(addr) { return Err(SimErr::AccessViolation); }
    let m = mm();
    if addr >= 0xFE00 {
        if ctx.strict && !data.is_init() { return Err(SimErr::StrictIOSetUninit); }
        if addr == PSR_ADDR { s.psr.set(data.get()); }
        else if addr == MCR_ADDR { s.mcr.store((data.get() as i16) < 0, std::sync::atomic::Ordering::Relaxed); }
    } else {
        if ctx.strict && !data.is_init() { return Err(SimErr::StrictMemSetUninit); }
        m.store(addr, data);
    }
    m.push_log(Access { write: true, addr, data, privileged: ctx.privileged, strict: ctx.strict, track: ctx.track_access, io_effects: ctx.io_effects });
    Ok(())
}

/// Contract stub of `DeviceHandler::poll_interrupt`: any pending vectored request or none
/// (its own contract -- highest priority wins -- is obligation K.device.poll_arbitration_*).
pub(crate) static mut PENDING: Option<(u8, u8)> = None;
pub(crate) static mut POLLS: u32 = 0;
pub(crate) fn contract_poll(_d: &mut DeviceHandler) -> Option<device::Interrupt> {
    unsafe { POLLS += 1; PENDING.map(|(v, p)| device::Interrupt::vectored(v, p)) }
}

// =================================================================================================
// The ISA reference (Appendix A of DESIGN.md).  Plain integers only.

pub(crate) mod isa {
    use super::{MiniMem, Word, Access};

    #[derive(Clone, Copy, PartialEq, Eq)]
    pub(crate) enum Outcome { Done, Halt, ErrPrivilege, ErrIllegal, ErrAccess }
    #[derive(Clone, Copy)]
    pub(crate) struct St { pub r: [u16; 8], pub pc: u16, pub psr: u16, pub ssp: u16, pub depth: u64 }
    #[derive(Clone, Copy, PartialEq, Eq)]
    pub(crate) struct Acc { pub write: bool, pub addr: u16, pub data: u16, pub privileged: bool }
    pub(crate) struct Ref {
        pub st: St,
        pub out: Outcome,
        /// an instruction was fetched, executed and completed normally (the instruction counter advances)
        pub completed: bool,
        /// an interrupt / trap / exception entry sequence ran (CC afterwards is unconstrained)
        pub entered: bool,
        /// the faulting/halting instruction's address when `out` is not Done
        pub fault_pc: u16,
        /// the value an exception entry pushed as PC may be fault_pc or fault_pc + 1
        pub exc_entry: bool,
        /// a corner the reference does not constrain was hit (stack push onto the PSR port)
        pub unconstrained: bool,
        pub acc: [Option<Acc>; 8], pub n_acc: usize,
    }
    pub(crate) fn user(psr: u16) -> bool { (psr >> 15) != 0 }
    pub(crate) fn prio(psr: u16) -> u16 { (psr >> 8) & 7 }
    fn sext(v: u16, bits: u32) -> u16 { let sh = 16 - bits; (((v << sh) as i16) >> sh) as u16 }
    fn cc_of(v: u16) -> u16 { if v == 0 { 0b010 } else if (v as i16) < 0 { 0b100 } else { 0b001 } }
    fn set_cc(psr: u16, v: u16) -> u16 { (psr & 0xFFF8) | cc_of(v) }
    /// value stored by a write to the memory-mapped PSR (this machine's definition of the port)
    pub(crate) fn psr_port(d: u16) -> u16 { let cc = d & 7; let cc = if cc == 1 || cc == 2 || cc == 4 { cc } else { 2 }; (d & 0x8700) | cc }
    fn in_user_space(a: u16) -> bool { a >= 0x3000 && a < 0xFE00 }

    pub(crate) struct Ctx<'a> { pub m: &'a mut MiniMem, pub over: [(u16, u16); 6], pub n_over: usize, pub ignore_privilege: bool }
    impl<'a> Ctx<'a> {
        fn allowed(&self, st: &St, a: u16) -> bool { !user(st.psr) || self.ignore_privilege || in_user_space(a) }
        fn privileged(&self, st: &St) -> bool { !user(st.psr) || self.ignore_privilege }
        fn read(&mut self, r: &mut Ref, a: u16) -> u16 {
            let v = if a < 0xFE00 {
                let mut found = None;
                let mut i = 6; while i > 0 { i -= 1; if i < self.n_over && self.over[i].0 == a { found = Some(self.over[i].1); break; } }
                match found { Some(v) => v, None => self.m.initial(a).get() }
            } else if a == 0xFFFC { r.st.psr }
            else {
                // device / MCR / mirror value: whatever the machine was given for its next I/O read
                let k = self.m.io_cursor; self.m.io_cursor += 1;
                if k < self.m.n_io && self.m.io_reads[k].0 == a { self.m.io_reads[k].1.get() } else { r.unconstrained = true; 0 }
            };
            let p = self.privileged(&r.st);
            push(r, Acc { write: false, addr: a, data: v, privileged: p });
            v
        }
        fn write(&mut self, r: &mut Ref, a: u16, v: u16) {
            let p = self.privileged(&r.st);
            push(r, Acc { write: true, addr: a, data: v, privileged: p });
            if a < 0xFE00 {
                let mut i = 0; let mut done = false;
                while i < 6 { if i < self.n_over && self.over[i].0 == a { self.over[i].1 = v; done = true; } i += 1; }
                if !done && self.n_over < 6 { self.over[self.n_over] = (a, v); self.n_over += 1; }
            } else if a == 0xFFFC { r.st.psr = psr_port(v); }
        }
    }
    fn push(r: &mut Ref, a: Acc) { if r.n_acc < 8 { r.acc[r.n_acc] = Some(a); } r.n_acc += 1; }

    /// entry sequence shared by TRAP, interrupts and (real traps) exceptions
    fn entry(r: &mut Ref, c: &mut Ctx, table_addr: u16, pushed_pc: u16, new_prio: Option<u16>) {
        r.entered = true;
        let old_psr = r.st.psr;
        if user(r.st.psr) { let t = r.st.ssp; r.st.ssp = r.st.r[6]; r.st.r[6] = t; }
        r.st.psr &= 0x7FFF; // supervisor
        let sp = r.st.r[6];
        r.st.r[6] = sp.wrapping_sub(2);
        // corners left unconstrained: a stack push that lands on the PSR port, and an exception entry
        // whose pushed PC (either of two values) is itself the vector-table entry read next
        if sp.wrapping_sub(1) == 0xFFFC || sp.wrapping_sub(2) == 0xFFFC { r.unconstrained = true; }
        if r.exc_entry && (sp.wrapping_sub(2) == table_addr) { r.unconstrained = true; }
        c.write(r, sp.wrapping_sub(1), old_psr);
        c.write(r, sp.wrapping_sub(2), pushed_pc);
        if let Some(p) = new_prio { r.st.psr = (r.st.psr & 0xF8FF) | ((p & 7) << 8); }
        let target = c.read(r, table_addr);
        r.st.pc = target;
        r.st.depth += 1;
    }
    fn exception(r: &mut Ref, c: &mut Ctx, real_traps: bool, vect: u16, out: Outcome, fault_pc: u16) {
        r.fault_pc = fault_pc;
        if real_traps { r.exc_entry = true; entry(r, c, vect, fault_pc, None); }
        else { r.out = out; }
    }

    /// One step of the LC-3 from `st0`; `pending` is the request the devices present at this boundary.
    pub(crate) fn step(st0: St, m: &mut MiniMem, real_traps: bool, ignore_privilege: bool, pending: Option<(u8, u8)>) -> Ref {
        let mut r = Ref { st: st0, out: Outcome::Done, completed: false, entered: false, fault_pc: st0.pc, exc_entry: false,
                          unconstrained: false, acc: [None; 8], n_acc: 0 };
        let mut c = Ctx { m, over: [(0, 0); 6], n_over: 0, ignore_privilege };
        // 0. interrupt, only at the instruction boundary and only above the current priority
        if let Some((v, p)) = pending {
            let p = if p > 7 { 7 } else { p } as u16;
            if p > prio(r.st.psr) {
                // vectors x00..x02 of the interrupt table belong to the exceptions; a device presenting
                // them under virtual traps is outside what the reference constrains
                if !real_traps && v <= 2 { r.unconstrained = true; return r; }
                let pc = r.st.pc;
                entry(&mut r, &mut c, 0x100 + v as u16, pc, Some(p));
                return r;
            }
        }
        let pc0 = r.st.pc;
        // 1. fetch
        if !c.allowed(&r.st, pc0) { exception(&mut r, &mut c, real_traps, 0x102, Outcome::ErrAccess, pc0); return r; }
        let w = c.read(&mut r, pc0);
        let op = w >> 12;
        // 2. decode
        let canonical = match op {
            0b0001 | 0b0101 => (w & 0x20) != 0 || (w & 0x18) == 0,
            0b0100 => (w & 0x800) != 0 || (w & 0x0E3F) == 0,
            0b1000 => (w & 0x0FFF) == 0,
            0b1001 => (w & 0x3F) == 0x3F,
            0b1100 => (w & 0x0E3F) == 0,
            0b1101 => false,
            0b1111 => (w & 0x0F00) == 0,
            _ => true,
        };
        if !canonical { exception(&mut r, &mut c, real_traps, 0x101, Outcome::ErrIllegal, pc0); return r; }
        let pc1 = pc0.wrapping_add(1);
        r.st.pc = pc1;
        let dr = ((w >> 9) & 7) as usize;
        let sr1 = ((w >> 6) & 7) as usize;
        let sr2 = (w & 7) as usize;
        let pco9 = pc1.wrapping_add(sext(w & 0x1FF, 9));
        match op {
            0b0000 => { if ((w >> 9) & 7) & (r.st.psr & 7) != 0 { r.st.pc = pco9; } }
            0b0001 | 0b0101 => {
                let b = if w & 0x20 != 0 { sext(w & 0x1F, 5) } else { r.st.r[sr2] };
                let v = if op == 1 { r.st.r[sr1].wrapping_add(b) } else { r.st.r[sr1] & b };
                r.st.r[dr] = v; r.st.psr = set_cc(r.st.psr, v);
            }
            0b1001 => { let v = !r.st.r[sr1]; r.st.r[dr] = v; r.st.psr = set_cc(r.st.psr, v); }
            0b1110 => { r.st.r[dr] = pco9; }
            0b0010 | 0b1010 | 0b0110 => {
                let mut ea = if op == 0b0110 { r.st.r[sr1].wrapping_add(sext(w & 0x3F, 6)) } else { pco9 };
                if op == 0b1010 {
                    if !c.allowed(&r.st, ea) { exception(&mut r, &mut c, real_traps, 0x102, Outcome::ErrAccess, pc0); return r; }
                    ea = c.read(&mut r, ea);
                }
                if !c.allowed(&r.st, ea) { exception(&mut r, &mut c, real_traps, 0x102, Outcome::ErrAccess, pc0); return r; }
                let v = c.read(&mut r, ea);
                r.st.r[dr] = v; r.st.psr = set_cc(r.st.psr, v);
            }
            0b0011 | 0b1011 | 0b0111 => {
                let mut ea = if op == 0b0111 { r.st.r[sr1].wrapping_add(sext(w & 0x3F, 6)) } else { pco9 };
                if op == 0b1011 {
                    if !c.allowed(&r.st, ea) { exception(&mut r, &mut c, real_traps, 0x102, Outcome::ErrAccess, pc0); return r; }
                    ea = c.read(&mut r, ea);
                }
                if !c.allowed(&r.st, ea) { exception(&mut r, &mut c, real_traps, 0x102, Outcome::ErrAccess, pc0); return r; }
                let v = r.st.r[dr];
                c.write(&mut r, ea, v);
            }
            0b0100 => {
                let target = if w & 0x800 != 0 { pc1.wrapping_add(sext(w & 0x7FF, 11)) } else { r.st.r[sr1] };
                r.st.r[7] = pc1; r.st.pc = target; r.st.depth += 1;
            }
            0b1100 => { r.st.pc = r.st.r[sr1]; if sr1 == 7 { r.st.depth = r.st.depth.saturating_sub(1); } }
            0b1111 => {
                let v = w & 0xFF;
                if !real_traps && v == 0x25 { r.out = Outcome::Halt; r.st.pc = pc0; return r; }
                entry(&mut r, &mut c, v, pc1, None);
            }
            0b1000 => {
                if user(r.st.psr) && !ignore_privilege { exception(&mut r, &mut c, real_traps, 0x100, Outcome::ErrPrivilege, pc0); return r; }
                let sp = r.st.r[6];
                let npc = c.read(&mut r, sp);
                let npsr = c.read(&mut r, sp.wrapping_add(1));
                r.st.r[6] = sp.wrapping_add(2);
                r.st.pc = npc; r.st.psr = npsr;
                if user(npsr) { let t = r.st.ssp; r.st.ssp = r.st.r[6]; r.st.r[6] = t; }
                r.st.depth = r.st.depth.saturating_sub(1);
            }
            _ => {}
        }
        r.completed = true;
        r
    }
    pub(crate) fn _unused(_: Word, _: Access) {}
}

// =================================================================================================
// L2: one step of the real code against the reference

#[derive(Clone, Copy)]
pub(crate) enum Got { Ok, Err(u8) }
fn err_code(e: &SimErr) -> u8 {
    match e {
        SimErr::IllegalOpcode => 1, SimErr::InvalidInstrFormat => 2, SimErr::PrivilegeViolation => 3, SimErr::AccessViolation => 4,
        SimErr::UnresolvedExternal(_) => 5, SimErr::Interrupt(_) => 6,
        SimErr::StrictRegSetUninit => 10, SimErr::StrictMemSetUninit => 11, SimErr::StrictIOSetUninit => 12, SimErr::StrictJmpAddrUninit => 13,
        SimErr::StrictSRAddrUninit => 14, SimErr::StrictMemAddrUninit => 15, SimErr::StrictPCCurrUninit => 16, SimErr::StrictPCNextUninit => 17,
        SimErr::StrictPSRSetUninit => 18,
    }
}
fn is_strict_err(c: u8) -> bool { c >= 10 }

fn eq8(a: &[u16; 8], b: &[u16; 8]) -> bool { let mut i = 0; let mut ok = true; while i < 8 { if a[i] != b[i] { ok = false; } i += 1; } ok }
fn data(r: &[Word; 8]) -> [u16; 8] { [r[0].get(), r[1].get(), r[2].get(), r[3].get(), r[4].get(), r[5].get(), r[6].get(), r[7].get()] }

/// The opcode classes the step obligations are split into (one harness each, run in parallel).
#[derive(Clone, Copy, PartialEq, Eq)]
enum Class { Alu, Load, Store, Control, Trap, Rti, Irq, Bad }
fn class_of(w: u16) -> Class {
    match w >> 12 {
        0b0001 | 0b0101 | 0b1001 | 0b1110 => Class::Alu,
        0b0010 | 0b1010 | 0b0110 => Class::Load,
        0b0011 | 0b1011 | 0b0111 => Class::Store,
        0b0000 | 0b0100 | 0b1100 => Class::Control,
        0b1111 => Class::Trap,
        0b1000 => Class::Rti,
        _ => Class::Bad,
    }
}

/// C08 / C09 / C10 / C16 / C27 / C28: run the real `step_in` once from an arbitrary state and compare
/// with `isa::step`.  `class` selects the fetched opcode class (Irq = a request above the current
/// priority is pending; every other class has no such request).
fn step_vs_isa(class: Class, real_traps: bool) {
    let fl = flags(false, real_traps, kani::any());
    let mut sim = any_sim(fl);
    kani::assume(sim.frame_stack.len() < u64::MAX);
    let pre = scalars(&sim);
    // devices: an arbitrary pending request
    let pend: Option<(u8, u8)> = kani::any();
    unsafe { PENDING = pend; POLLS = 0; MM = MiniMem::new(); }
    let taken = match pend { Some((_, p)) => (if p > 7 { 7 } else { p }) as u16 > isa::prio(pre.psr), None => false };
    if class == Class::Irq { kani::assume(taken); } else {
        kani::assume(!taken);
        // pre-seed the fetched word so the class can be selected
        let w = mm().initial(pre.pc);
        kani::assume(class_of(w.get()) == class);
    }
    // a cell of the real 64K array must never be touched behind the access functions' back
    let probe: u16 = kani::any();
    let cell0 = sim.mem[probe];

    let res = sim.step_in();
    let got = match &res { Ok(()) => Got::Ok, Err(e) => Got::Err(err_code(e)) };
    let post = scalars(&sim);
    // C16: the faulting-address query never panics
    let fpc = sim.prefetch_pc();
    assert!(sim.mem[probe] == cell0, "L2.frame: memory is touched only through read_mem/write_mem");
    assert!(unsafe { POLLS } == 1, "C10.poll: devices are polled exactly once per step");

    // ---- the reference
    let st0 = isa::St { r: data(&pre.r), pc: pre.pc, psr: pre.psr, ssp: pre.ssp.get(), depth: pre.depth };
    let m = mm();
    let real_log = m.log; let real_nlog = m.n_log;
    let real_over = m.over; let real_nover = m.n_over;
    assert!(!m.overflow && real_nlog <= 6, "L2.frame: at most six memory accesses per step");
    let rf = isa::step(st0, m, real_traps, fl.ignore_privilege, pend);
    if rf.unconstrained { return; }
    // vacuity guards: the outcomes this class is about must be reachable behind the assumptions above
    let in_mem = pre.pc < 0xFE00; // (a word fetched from the I/O page is not constrained by the class split)
    let (exp_completed, exp_entered, exp_err) = (class != Class::Irq && class != Class::Bad, class == Class::Trap || class == Class::Irq || real_traps, !real_traps && class != Class::Irq);
    kani::cover!(!exp_completed || (rf.completed && in_mem), "completed instruction reachable");
    kani::cover!(!exp_entered || (rf.entered && in_mem), "entry sequence reachable");
    kani::cover!(!exp_err || (!matches!(rf.out, isa::Outcome::Done) && in_mem), "halt or error outcome reachable");

    // ---- outcome
    match rf.out {
        isa::Outcome::Done | isa::Outcome::Halt => assert!(matches!(got, Got::Ok), "C08.outcome: the step succeeds exactly when the ISA defines a result"),
        isa::Outcome::ErrPrivilege => assert!(matches!(got, Got::Err(3)), "C09.outcome: RTI in user mode is a privilege violation"),
        isa::Outcome::ErrIllegal => assert!(matches!(got, Got::Err(1) | Got::Err(2)), "C08.outcome: non-canonical word is an illegal-opcode / invalid-format error"),
        isa::Outcome::ErrAccess => assert!(matches!(got, Got::Err(4)), "C09.outcome: access outside user space in user mode is an access violation"),
    }
    // ---- registers, saved SP, frame depth
    assert!(eq8(&data(&post.r), &rf.st.r), "C08.regs: registers as the ISA prescribes");
    assert!(post.ssp.get() == rf.st.ssp, "C08.ssp: saved stack pointer as the ISA prescribes");
    assert!(post.depth == rf.st.depth, "C27.depth: frame depth = calls/traps/interrupts entered minus returns, saturating");
    // ---- PSR (CC after an entry sequence is the simulator's own choice)
    let mask = if rf.entered { 0xFFF8 } else { 0xFFFF };
    assert!(post.psr & mask == rf.st.psr & mask, "C08.psr: privilege, priority and condition codes as the ISA prescribes");
    // ---- PC / faulting address
    match rf.out {
        isa::Outcome::Done => assert!(post.pc == rf.st.pc, "C08.pc: next PC as the ISA prescribes"),
        isa::Outcome::Halt => { assert!(post.pc == rf.st.pc && fpc == rf.fault_pc, "C08.halt: a virtual HALT leaves the PC at the HALT"); }
        _ => assert!(fpc == rf.fault_pc, "C08.fault: the error is reported with the faulting instruction's address"),
    }
    // ---- instruction counter
    if rf.completed { assert!(post.icount == pre.icount.wrapping_add(1), "C13.count: a completed instruction counts once"); }
    else if !rf.entered { assert!(post.icount == pre.icount, "C13.count: a halted or failed step does not count"); }
    // ---- memory and I/O accesses: same set of (kind, address, privilege), same data for writes
    let mut i = 0;
    while i < 8 {
        if i < real_nlog {
            let a = real_log[i].unwrap();
            assert!(a.track && a.io_effects, "C28.ctx: program accesses are tracked and effectful");
            let mut found = false;
            let mut j = 0;
            while j < 8 {
                if j < rf.n_acc { let b = rf.acc[j].unwrap();
                    let same_data = a.data.get() == b.data || (rf.exc_entry && a.write && b.data == rf.fault_pc && a.data.get() == rf.fault_pc.wrapping_add(1));
                    if a.write == b.write && a.addr == b.addr && a.privileged == b.privileged && (!a.write || same_data) { found = true; } }
                j += 1;
            }
            assert!(found, "C08.access: every access made is one the ISA prescribes (address, direction, privilege, data)");
        }
        i += 1;
    }
    let mut j = 0;
    while j < 8 {
        if j < rf.n_acc {
            let b = rf.acc[j].unwrap();
            let mut found = false;
            let mut i = 0;
            while i < 8 {
                if i < real_nlog { let a = real_log[i].unwrap(); if a.write == b.write && a.addr == b.addr { found = true; } }
                i += 1;
            }
            assert!(found, "C08.access: every access the ISA prescribes is made");
        }
        j += 1;
    }
    let _ = (real_over, real_nover);
}

macro_rules! step_harness {
    ($name:ident, $class:expr, $real:expr) => {
        #[kani::proof]
        #[kani::stub(std::hash::RandomState::new, stub_random_state)]
        #[kani::stub(<DeviceHandler as ExternalDevice>::poll_interrupt, contract_poll)]
        #[kani::stub(Simulator::read_mem, contract_read_mem)]
        #[kani::stub(Simulator::write_mem, contract_write_mem)]
        #[kani::unwind(9)]
        fn $name() { step_vs_isa($class, $real) }
    };
}
step_harness!(step_alu_virtual, Class::Alu, false);
step_harness!(step_alu_real, Class::Alu, true);
step_harness!(step_load_virtual, Class::Load, false);
step_harness!(step_load_real, Class::Load, true);
step_harness!(step_store_virtual, Class::Store, false);
step_harness!(step_store_real, Class::Store, true);
step_harness!(step_control_virtual, Class::Control, false);
step_harness!(step_control_real, Class::Control, true);
step_harness!(step_trap_virtual, Class::Trap, false);
step_harness!(step_trap_real, Class::Trap, true);
step_harness!(step_rti_virtual, Class::Rti, false);
step_harness!(step_rti_real, Class::Rti, true);
step_harness!(step_irq_virtual, Class::Irq, false);
step_harness!(step_irq_real, Class::Irq, true);
step_harness!(step_bad_virtual, Class::Bad, false);
step_harness!(step_bad_real, Class::Bad, true);
