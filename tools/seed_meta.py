#!/usr/bin/env python3
"""Writes /verif/seeded/<id>/meta.json for every confirmed seeded defect (descriptions taken from the independent
sub-agents' reports; 'confirmed' = tools/confirm_seed.sh output in /verif/seeded/confirm.log)."""
import json, os
S = {
 "C02-1": ("C02", "asm.rs Cursor::shift: IO guard tests the counter before the shift (self.lc >= IO_START) instead of after", "a multi-word directive (.blkw n>=2 / .stringz) that starts below xFE00, ends above it and is the last word-emitting statement of its block"),
 "C02-2": ("C02", "asm.rs add_label: conflict with an already recorded external entry no longer reported", "same label declared .external first, then bound as an ordinary label at a non-zero address"),
 "C06-1": ("C06", "ast/sim.rs decode: JMP must-be-zero check narrowed to bits 9..11 (re-introduces D1)", "one of the 8 words xC800|BaseR<<6"),
 "C06-2": ("C06", "ast/sim.rs encode: TRAP vector written with 7 bits", "TRAP vector with bit 7 set"),
 "C08-1": ("C08", "sim.rs: interrupt gate `>` -> `>=` in _step_inner AND `<=` -> `<` in handle_interrupt (two cooperating sites)", "pending vectored interrupt at exactly the current priority"),
 "C08-2": ("C08", "sim.rs _step_inner: PC incremented before decode", "fetched word fails to decode (reserved opcode or reserved bits): pushed PC / left PC is addr+1"),
 "C09-1": ("C09", "sim.rs read_mem: privilege check moved after the I/O read", "user-mode read of a device register with read side effects (KBDR with a pending key)"),
 "C09-2": ("C09", "sim.rs LDI: pointer slot read through self.mem[..] without privilege check", "user-mode LDI whose pointer slot lies outside user space and holds a legal user address"),
 "C10-1": ("C10", "sim.rs handle_interrupt: priority raised before old PSR is captured (saved PSR carries handler priority)", "inspect saved/restored PSR priority or a second request at <= that priority after RTI"),
 "C10-2": ("C10", "device.rs Interrupt::priority: mask & 0b11 used as arbitration key", ">= 2 devices pending at one boundary whose priority order flips under &3"),
 "C14-1": ("C14", "sim.rs set_pc: strict next-PC peek done with read_mem(omnipotent ctx) (mirror cell of a mapped I/O register refreshed under strict only)", "strict-accepted jump onto a mapped I/O address, compare memory array afterwards"),
 "C14-2": ("C14", "sim.rs LD/LDR/LDI: condition codes updated only when !strict || val.is_init()", "strict-exempt load (R6-relative or .blkw) of an uninitialized word with a differing previous CC"),
 "C16-1": ("C16", "sim.rs prefetch_pc: match with `self.pc - 1` (re-introduces D2)", "PC = x0000 right after a completed fetch; JSR/JSRR/TRAP at xFFFF"),
 "C16-2": ("C16", "sim.rs in_alloca: early-out on alloca.is_empty() instead of first_post == 0", "strict mode + loaded object file whose first block starts above the accessed address"),
 "C27-1": ("C27", "sim.rs RTI: pop_frame moved inside the `if !privileged` block", "RTI returning into supervisor-mode code (nested trap/interrupt)"),
 "C27-2": ("C27", "frame.rs set_subroutine_def: entry().or_insert instead of insert", "same callee registered twice with different signatures, debug frames on"),
 "C32-1": ("C32", "device.rs DEVICE_SLOTS = u16::MAX - IO_START (0x1FF): port xFFFF has no table slot", "device at port xFFFF"),
 "C32-2": ("C32", "sim.rs write_mem: device io_write hoisted out of the None arm (device written even when an internal register is mapped)", "internal register and a non-null device at the same address, then a write"),
 "C34-1": ("C34", "timer.rs poll_interrupt: decrement then compare == 1 (a drawn count of 1 never fires)", "exact count 1 or a range containing 1"),
 "C34-2": ("C34", "timer.rs TimerDevice::new: seed ignored when range.start == range.end", "seeded exact range, then set_range wider, then reset: same seed gives different sequences"),
 "C28-1": ("C28", "sim.rs write_mem: WRITTEN recorded only when the value changes", "store of a word identical to the current content"),
 "C28-2": ("C28", "sim.rs read_mem: READ recorded before the privilege check", "user-mode tracked read outside x3000..xFE00"),
 "C13-1": ("C13", "sim.rs run_with_limit: absolute end = instructions_run + max_steps (overflow)", "instructions_run + max_steps overflows u64 (run_with_limit(u64::MAX) after >= 1 instruction)"),
 "C13-2": ("C13", "sim.rs step_over: `curr_frame != len` instead of `<`", "step_over invoked on a RET/RTI at depth >= 1"),
 "C12-1": ("C12", "sim.rs step: InvalidInstrFormat arm of the real-trap dispatch deleted", "use_real_traps and a valid-opcode word with wrong fixed bits"),
 "C12-2": ("C12", "sim.rs step: PrivilegeViolation dispatched to the AccessViolation vector", "use_real_traps and a user-mode RTI"),
 "C30-1": ("C30", "sim.rs reset: ireg_mmap.extend(saved) into the fresh map (removed default mappings come back)", "munmap_internal(xFFFC or xFFFE) before the reset"),
 "C30-2": ("C30", "sim.rs reset: fast path when instructions_run == 0 skips the rebuild", "dirty state with the counter at exactly 0"),
 "C01-1": ("C01", "asm.rs Directive::word_len: .stringz counted in chars", ".stringz with a multi-byte UTF-8 character followed by a label/reference"),
 "C01-2": ("C01", "ast/sim.rs encode: AND-immediate written with 4 bits", "AND with a negative immediate"),
 "C05-1": ("C05", "lex.rs lex_reg: number parsed as u32 and narrowed with `as u8`", "R256..R263 etc."),
 "C05-2": ("C05", "parse.rs Offset<i16,N>::convert: unsigned literal converted with `as i16`", "unsigned literal in 65536-2^(N-1)..=65535 in a signed field"),
"C07-1": ("C07", "ast/asm.rs try_disassemble_line: TRAP x24 disassembles as PUTS", "the word xF024"),
 "C07-2": ("C07", "ast/asm.rs Display for AsmInstr: JSRR printed as JSR", "the 8 words x4000|BaseR<<6 (text leg)"),
 "C15-1": ("C15", "mem.rs Word::add: `0 + rhs` shortcut checks the right operand's init mask", "uninitialized left operand whose junk data is 0"),
 "C15-2": ("C15", "mem.rs Word::sub: init = NO only when an operand's mask is NO_BITS (partial masks treated as initialized)", "an operand with a partial init mask (after a masking AND)"),
 "C19-1": ("C19", "mem.rs copy_obj_block: wrap-around split point off by one", "object file whose initialized run crosses xFFFF -> x0000 (crafted file only)"),
 "C19-2": ("C19", "encoding.rs count_digits: n.ilog10() panics on 0", "label with source index 0 / highest line number 0, re-serialized as text"),
 "C23-1": ("C23", "asm.rs add_label: repeated label at the same address overwrites the first record (span of the last occurrence)", "same label written more than once on one address"),
 "C23-2": ("C23", "asm.rs SymbolTable::new: .external names stored without upper-casing", ".external declaration whose name is not all upper-case"),
 "C25-1": ("C25", "asm.rs line_span: trim_end replaced by explicit newline/CR/blank stripping", "a \\r (or form feed) in the trailing whitespace not directly followed by \\n"),
 "C25-2": ("C25", "asm.rs get_pos_pair: line lookup clamped to len-1 (column still from the unclamped index)", "source ending with \\n and index >= len"),
 "C26-1": ("C26", "asm.rs add_label: .external declarations recorded with the directive's span", "name declared .external first, then defined locally at a non-zero address"),
 "C26-2": ("C26", "asm.rs UndetAddrLabel spans filtered to labels not yet in the table (can be empty)", "statement outside any block whose labels are all already known"),
 "C35-1": ("C35", "ast.rs truncate: 'already in range' fast path using leading_ones also for u16", "unsigned offset with N < 16 and a value whose top bits are all ones"),
 "C35-2": ("C35", "ast.rs Offset::new: full-width shortcut `N >= BITS - 1`", "N = 15 exactly"),
}
root = "/verif/seeded"
for sid, (prop, what, needs) in S.items():
    d = os.path.join(root, sid)
    if not os.path.isdir(d): continue
    meta = {"seed": sid, "property": prop, "change": what, "needs_to_manifest": needs,
            "origin": "independent sub-agent given only the property text and a scratch worktree (nothing from /verif)",
            "confirmed_by": "tools/confirm_seed.sh in a scratch worktree of /repo HEAD: demo passes on the pristine tree; with patch.diff applied `cargo test --offline --lib` (35 tests) and `--doc` pass and the demo fails",
            "files": ["patch.diff", "demo.rs"]}
    p = os.path.join(d, "meta.json")
    old = json.load(open(p)) if os.path.exists(p) else {}
    for k in ("detected_by", "detection"): 
        if k in old: meta[k] = old[k]
    json.dump(meta, open(p, "w"), indent=1)
print("ok")
