}
#[cfg(kani)]
mod verif_kani {
    use super::*;

    impl FrameStack {
        pub(crate) fn kani_new(depth: u64) -> Self {
            FrameStack { frame_no: depth, trap_defns: HashMap::new(), sr_defns: HashMap::new(), frames: None }
        }
    }
    #[kani::proof]
    #[kani::unwind(8)]
    fn frame_push_pop_depth() {
        let mut fs = FrameStack { frame_no: kani::any(), trap_defns: HashMap::new(), sr_defns: HashMap::new(), frames: None };
        let d0 = fs.len();
        kani::assume(d0 < u64::MAX);
        fs.frame_no += 1;
        fs.pop_frame();
        assert!(fs.len() == d0);
        let x = fs.get_subroutine_def(kani::any());
        assert!(x.is_none());
    }
}
