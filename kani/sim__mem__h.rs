// Kani contracts for src/sim/mem.rs (overlaid as `crate::sim::mem::verif_kani_h`).
// C15 (initialization tracking is sound), L0 leaf contracts of `Word` used by C14/C16.
use super::*;

/// Two words "agree" when they have the same init mask and the same data on initialized bits,
/// i.e. they differ only in the value of uninitialized bits.
fn agree(a: Word, b: Word) -> bool { a.init == b.init && (a.data & a.init) == (b.data & b.init) }

/// C15: for +, -, &, ! every result bit reported initialized is independent of the operands'
/// uninitialized bits; fully initialized operands give the fully initialized wrapping result.
#[kani::proof]
fn word_ops_sound() {
    let (a, b, a2, b2): (Word, Word, Word, Word) = (kani::any(), kani::any(), kani::any(), kani::any());
    kani::assume(agree(a, a2) && agree(b, b2));
    let op: u8 = kani::any();
    kani::assume(op < 4);
    let (r, r2) = match op { 0 => (a + b, a2 + b2), 1 => (a - b, a2 - b2), 2 => (a & b, a2 & b2), _ => (!a, !a2) };
    kani::cover!(op == 2 && r.init != 0 && r.init != 0xFFFF, "partially initialized AND result reachable");
    kani::cover!(op == 0 && !a.is_init() && b.is_init(), "ADD with an uninitialized operand reachable");
    // every bit reported initialized has the same value for every choice of uninitialized operand bits
    let both = r.init & r2.init;
    assert!((r.data & r.init & r2.init) == (r2.data & both), "C15.sound: initialized result bits do not depend on uninitialized operand bits");
    assert!((r.data & r.init) == (r2.data & r.init), "C15.sound: every bit reported initialized is determined");
    if a.is_init() && b.is_init() {
        assert!(r.is_init(), "C15.full: fully initialized operands give a fully initialized result");
        let want = match op { 0 => a.data.wrapping_add(b.data), 1 => a.data.wrapping_sub(b.data), 2 => a.data & b.data, _ => !a.data };
        assert!(r.data == want, "C15.full: result carries the wrapping 16-bit value");
    }
    if op == 3 && a.is_init() { assert!(r.is_init() && r.data == !a.data, "C15.full: NOT of an initialized word"); }
}

/// C15 for the assigning forms (`+=`, `-=`, `&=` with Word / u16 / i16 right-hand sides).
#[kani::proof]
fn word_assign_ops_agree() {
    let a: Word = kani::any();
    let b: Word = kani::any();
    let k: u16 = kani::any();
    let mut x = a; x += b; assert!(x == a + b, "C15.assign: += Word");
    let mut x = a; x -= b; assert!(x == a - b, "C15.assign: -= Word");
    let mut x = a; x &= b; assert!(x == (a & b), "C15.assign: &= Word");
    let mut x = a; x += k; assert!(x == a + Word::new_init(k), "C15.assign: += u16");
    let mut x = a; x -= k; assert!(x == a - Word::new_init(k), "C15.assign: -= u16");
    let mut x = a; x += k as i16; assert!(x == a + Word::new_init(k), "C15.assign: += i16");
    let mut x = a; x -= k as i16; assert!(x == a - Word::new_init(k), "C15.assign: -= i16");
    if a.is_init() {
        let mut x = a; x += k; assert!(x.is_init() && x.get() == a.get().wrapping_add(k), "C15.assign: initialized += k");
        let mut x = a; x -= k; assert!(x.is_init() && x.get() == a.get().wrapping_sub(k), "C15.assign: initialized -= k");
    }
}

/// L0: `Word` accessors (C14 strict checks go through get_if_init / set_if_init).
#[kani::proof]
fn word_leaf_contracts() {
    let w: Word = kani::any();
    let d: u16 = kani::any();
    let strict: bool = kani::any();
    assert!(Word::new_init(d).is_init() && Word::new_init(d).get() == d, "L0.new_init");
    assert!(Word::from(d) == Word::new_init(d) && Word::from(d as i16) == Word::new_init(d), "L0.from");
    assert!(w.is_init() == (w.init == 0xFFFF), "L0.is_init: all 16 bits");
    match w.get_if_init(strict, 7u8) {
        Ok(v) => assert!(v == w.get() && (!strict || w.is_init()), "L0.get_if_init: Ok iff non-strict or initialized"),
        Err(e) => assert!(e == 7 && strict && !w.is_init(), "L0.get_if_init: Err only under strict with an uninitialized word"),
    }
    let mut t: Word = kani::any();
    let t0 = t;
    match t.set_if_init(w, strict, 9u8) {
        Ok(()) => assert!(t == w && (!strict || w.is_init()), "L0.set_if_init: stores the word with its init mask"),
        Err(e) => assert!(e == 9 && strict && !w.is_init() && t == t0, "L0.set_if_init: Err leaves the target unchanged"),
    }
    let mut t: Word = kani::any();
    t.set(d);
    assert!(t == Word::new_init(d), "L0.set: fully initialized");
    let mut t = w;
    t.clear_init();
    assert!(t.get() == w.get() && t.init == 0 && (!t.is_init()), "L0.clear_init: data kept, nothing initialized");
    let mut f: u16 = d;
    let u = Word::new_uninit(&mut f);
    assert!(u.get() == d && !u.is_init() && u.init == 0, "L0.new_uninit: filler value, no bit initialized");
}

/// L0: register file and memory indexing reach exactly the addressed cell.
#[kani::proof]
#[kani::unwind(9)]
fn regfile_index_contract() {
    let mut rf = RegFile::verif_any();
    let before = rf.0;
    let n: u8 = kani::any();
    kani::assume(n < 8);
    let m: u8 = kani::any();
    kani::assume(m < 8);
    let reg = Reg::try_from(n).unwrap();
    let w: Word = kani::any();
    assert!(rf[reg] == before[n as usize], "L0.regfile: index reads register n");
    rf[reg] = w;
    assert!(rf.0[n as usize] == w, "L0.regfile: index_mut writes register n");
    if m != n { assert!(rf.0[m as usize] == before[m as usize], "L0.regfile: other registers unchanged"); }
}
