// Kani contracts for src/sim/device.rs (overlaid as `crate::sim::device::verif_kani_h`).
// C32 (port table invariant, dispatch), C10 (device arbitration), C34/C10 leaf (`Interrupt`), C30 (io_reset).
//
// Never let CBMC resolve `Box<dyn ExternalDevice>` calls (every implementor incl. RwLock/Mutex
// wrappers gets dragged in).  `<SimDevice as ExternalDevice>::*` are replaced by recording stubs that
// log which slot was called: the device's own contract is "any result; it cannot touch the simulator"
// (guaranteed by its `&mut self` signature), which is exactly what an arbitrary return value models.
use super::*;
use super::verif_kani::wf_at;

// ---- slot-recording stubs -------------------------------------------------------------------------
static mut SLOT_CALLED: *const internals::SimDevice = std::ptr::null();
static mut SLOT_CALLS: u32 = 0;
static mut SLOT_ADDR: u16 = 0;
static mut SLOT_DATA: u16 = 0;
static mut SLOT_EFF: bool = false;
static mut SLOT_RET_R: Option<u16> = None;
static mut SLOT_RET_W: bool = false;
fn stub_slot_read(d: &mut internals::SimDevice, addr: u16, e: bool) -> Option<u16> {
    let r: Option<u16> = kani::any();
    unsafe { SLOT_CALLED = d as *const _; SLOT_CALLS += 1; SLOT_ADDR = addr; SLOT_EFF = e; SLOT_RET_R = r; }
    r
}
fn stub_slot_write(d: &mut internals::SimDevice, addr: u16, data: u16) -> bool {
    let r: bool = kani::any();
    unsafe { SLOT_CALLED = d as *const _; SLOT_CALLS += 1; SLOT_ADDR = addr; SLOT_DATA = data; SLOT_RET_W = r; }
    r
}

/// C32 dispatch: a read at a port reaches exactly the device that owns it, once, with the same arguments.
#[kani::proof]
#[kani::stub(<internals::SimDevice as ExternalDevice>::io_read, stub_slot_read)]
#[kani::unwind(6)]
fn io_read_dispatch() {
    let mut h = DeviceHandler::verif_any(4);
    let p: u16 = kani::any();
    kani::assume(wf_at(&h, p));
    let owner = h.get_dev_id(p);
    let eff: bool = kani::any();
    kani::cover!(owner == Some(3), "extra device owner reachable");
    kani::cover!(owner.is_none(), "non-IO address reachable");
    let r = h.io_read(p, eff);
    unsafe {
        match owner {
            None => { assert!(p < 0xFE00, "C32.read: only non-I/O addresses have no owner"); assert!(r.is_none() && SLOT_CALLS == 0, "C32.read: nothing reached"); }
            Some(d) => {
                assert!(SLOT_CALLS == 1, "C32.read: exactly one device call");
                assert!(SLOT_ADDR == p && SLOT_EFF == eff, "C32.read: same arguments");
                assert!(SLOT_CALLED == &h.devices[d as usize] as *const _, "C32.read: the owner of the port is the device reached");
                assert!(r == SLOT_RET_R, "C32.read: the device's answer is returned");
            }
        }
    }
}
/// C32 dispatch for writes.
#[kani::proof]
#[kani::stub(<internals::SimDevice as ExternalDevice>::io_write, stub_slot_write)]
#[kani::unwind(6)]
fn io_write_dispatch() {
    let mut h = DeviceHandler::verif_any(4);
    let p: u16 = kani::any();
    kani::assume(wf_at(&h, p));
    let owner = h.get_dev_id(p);
    let data: u16 = kani::any();
    let r = h.io_write(p, data);
    unsafe {
        match owner {
            None => { assert!(p < 0xFE00 && !r && SLOT_CALLS == 0, "C32.write: nothing reached, write reported unsuccessful"); }
            Some(d) => {
                assert!(SLOT_CALLS == 1 && SLOT_ADDR == p && SLOT_DATA == data, "C32.write: exactly one device call with the same arguments");
                assert!(SLOT_CALLED == &h.devices[d as usize] as *const _, "C32.write: the owner of the port is the device reached");
                assert!(r == SLOT_RET_W, "C32.write: the device's answer is returned");
            }
        }
    }
}

/// The real Null device (unowned ports map to slot 0 = Null): reads give nothing, writes fail.
#[kani::proof]
fn null_device_contract() {
    let mut n = NullDevice;
    assert!(n.io_read(kani::any(), kani::any()).is_none(), "C32.null: read gives nothing");
    assert!(!n.io_write(kani::any(), kani::any()), "C32.null: write unsuccessful");
    assert!(n.poll_interrupt().is_none(), "C32.null: never interrupts");
    let mut s = internals::SimDevice::Null;
    assert!(s.io_read(kani::any(), kani::any()).is_none() && !s.io_write(kani::any(), kani::any()) && s.poll_interrupt().is_none(), "C32.null: SimDevice::Null behaves as NullDevice");
}

/// C32: a fresh handler satisfies the invariant at every port: keyboard/display reserved, all else unowned (slot 0).
#[kani::proof]
#[kani::unwind(514)]
fn new_handler_wf() {
    let h = DeviceHandler::new();
    let p: u16 = kani::any();
    assert!(wf_at(&h, p), "C32.new: invariant holds at every port");
    assert!(h.devices.len() == 3, "C32.new: three fixed slots");
    if p >= 0xFE00 && p != KBSR && p != KBDR && p != DSR && p != DDR { assert!(h.get_dev_id(p) == Some(0), "C32.new: other ports unowned"); }
}

fn add_case<const NP: usize>(n0: usize) {
    let mut h = DeviceHandler::verif_any(n0);
    let ps: [u16; NP] = kani::any();
    let probe: u16 = kani::any();
    let mut i = 0;
    while i < NP { kani::assume(wf_at(&h, ps[i])); i += 1; }
    kani::assume(wf_at(&h, probe));
    let owner_probe0 = h.get_dev_id(probe);
    let mut all_free = true;
    let mut i = 0;
    while i < NP { if !(ps[i] >= 0xFE00 && h.get_dev_id(ps[i]) == Some(0)) { all_free = false; } i += 1; }
    kani::cover!(all_free, "successful add reachable");
    kani::cover!(!all_free || NP == 0, "rejected add reachable (or no ports requested)");
    let r = h.add_device(NullDevice, &ps);
    match r {
        Ok(id) => {
            assert!(all_free, "C32.add: succeeds only when every requested port is an unowned I/O address");
            assert!(id as usize == n0 && h.devices.len() == n0 + 1, "C32.add: new id = number of devices ever added (ids never reused)");
            let mut i = 0;
            while i < NP { assert!(h.get_dev_id(ps[i]) == Some(id), "C32.add: requested ports now owned by the new device"); i += 1; }
            let mut requested = false;
            let mut i = 0;
            while i < NP { if ps[i] == probe { requested = true; } i += 1; }
            if !requested { assert!(h.get_dev_id(probe) == owner_probe0, "C32.add: every other port keeps its owner"); }
        }
        Err(_) => {
            assert!(!all_free, "C32.add: fails only when some port is owned or not an I/O address");
            assert!(h.devices.len() == n0 && h.get_dev_id(probe) == owner_probe0, "C32.add: a failed add changes nothing");
        }
    }
    assert!(wf_at(&h, probe), "C32.add: invariant preserved");
    let mut i = 0;
    while i < NP { assert!(wf_at(&h, ps[i]), "C32.add: invariant preserved at requested ports"); i += 1; }
}
#[kani::proof] #[kani::unwind(6)] fn add_device_0_ports() { add_case::<0>(3) }
#[kani::proof] #[kani::unwind(6)] fn add_device_1_port_3() { add_case::<1>(3) }
#[kani::proof] #[kani::unwind(6)] fn add_device_1_port_4() { add_case::<1>(4) }
#[kani::proof] #[kani::unwind(6)] fn add_device_2_ports() { add_case::<2>(3) }

/// C32: removing a device frees exactly its ports (keyboard/display ports stay reserved); ids are not reused.
/// BOUNDED stand-in: 5 device slots; the port table has an arbitrary owner at one port (concrete position P) and the
/// fresh-handler value everywhere else; the removed id is one of 0, 1, 3, 4, 9, one obligation each (a fully symbolic
/// table, symbolic positions, a second symbolic owner or a symbolic id each push the 512-entry sweep past 13 GB / 15 min).
fn remove_case<const P: u16, const ID: u16>() {
    let mut h = DeviceHandler::new();
    h.devices.reserve(4);
    h.devices.push(internals::SimDevice::Null);
    h.devices.push(internals::SimDevice::Null);
    let n0 = 5;
    h.io_ports[(P - 0xFE00) as usize] = kani::any();
    let id: u16 = ID;
    kani::assume(wf_at(&h, P));
    let sel: u8 = kani::any();
    let probe: u16 = match sel % 4 { 0 => P, 1 => DSR, 2 => 0xFE20, _ => KBDR };
    let owner0 = h.get_dev_id(probe);
    kani::cover!(ID < 3 || ID > 4 || (probe == P && owner0 == Some(ID)), "removing an owning device reachable");
    h.remove_device(id);
    assert!(h.devices.len() == n0, "C32.remove: slots are never compacted (ids never reused)");
    let fixed = id <= 2;
    if owner0 == Some(id) && !fixed && (id as usize) < n0 { assert!(h.get_dev_id(probe) == Some(0), "C32.remove: the device's ports are freed"); }
    else { assert!(h.get_dev_id(probe) == owner0, "C32.remove: other ports (and keyboard/display ports) keep their owner"); }
    assert!(wf_at(&h, probe), "C32.remove: invariant preserved");
}
/// A device owning several ports: every one of them is freed (concrete table: device 3 owns xFE10, xFE11 and xFFFF,
/// device 4 owns xFE12).
#[kani::proof] #[kani::unwind(514)]
fn remove_device_multi_port() {
    let mut h = DeviceHandler::new();
    h.devices.reserve(4);
    h.devices.push(internals::SimDevice::Null);
    h.devices.push(internals::SimDevice::Null);
    h.io_ports[0x10] = 3; h.io_ports[0x11] = 3; h.io_ports[0x1FF] = 3; h.io_ports[0x12] = 4;
    h.remove_device(3);
    assert!(h.get_dev_id(0xFE10) == Some(0) && h.get_dev_id(0xFE11) == Some(0) && h.get_dev_id(0xFFFF) == Some(0), "C32.remove: all of the device's ports are freed");
    assert!(h.get_dev_id(0xFE12) == Some(4) && h.get_dev_id(KBSR) == Some(1) && h.get_dev_id(DDR) == Some(2), "C32.remove: other devices' ports keep their owner");
    // (a freed port is unowned again, which is exactly what add_device requires of a port: obligations add_device_*)
}
#[kani::proof] #[kani::unwind(514)] fn remove_device_3() { remove_case::<0xFE10, 3>() }
#[kani::proof] #[kani::unwind(514)] fn remove_device_4() { remove_case::<0xFFFF, 4>() }
#[kani::proof] #[kani::unwind(514)] fn remove_device_kbd() { remove_case::<0xFE00, 1>() }
#[kani::proof] #[kani::unwind(514)] fn remove_device_null() { remove_case::<0xFE10, 0>() }
#[kani::proof] #[kani::unwind(514)] fn remove_device_absent() { remove_case::<0xFE10, 9>() }

/// C32: keyboard/display replacement keeps the port table and the device count.
#[kani::proof]
#[kani::unwind(6)]
fn set_keyboard_display_contract() {
    let mut h = DeviceHandler::verif_any(3);
    let probe: u16 = kani::any();
    kani::assume(wf_at(&h, probe));
    let owner0 = h.get_dev_id(probe);
    if kani::any() { h.set_keyboard(NullDevice); } else { h.set_display(NullDevice); }
    assert!(h.devices.len() == 3 && h.get_dev_id(probe) == owner0 && wf_at(&h, probe), "C32.replace: port table unchanged");
}

// ---- interrupts ----------------------------------------------------------------------------------
/// L0: `Interrupt::vectored` keeps the vector, clamps the priority to 0..=7; `priority()` reports it.
#[kani::proof]
fn interrupt_leaf() {
    let (v, p): (u8, u8) = (kani::any(), kani::any());
    let i = Interrupt::vectored(v, p);
    match i.kind {
        InterruptKind::Vectored { vect, priority } => {
            assert!(vect == v, "C10.leaf: vector kept");
            assert!(priority == if p > 7 { 7 } else { p }, "C10.leaf: priority clamped to 0..=7");
        }
        _ => assert!(false, "C10.leaf: vectored kind"),
    }
    assert!(i.priority() == Some(if p > 7 { 7 } else { p }), "C10.leaf: priority() reports the clamped priority");
}

static mut POLL_RET: [Option<(u8, u8)>; 4] = [None; 4];
static mut POLL_CALLS: [u32; 4] = [0; 4];
static mut POLL_BASE: *const internals::SimDevice = std::ptr::null();
fn stub_slot_poll(d: &mut internals::SimDevice) -> Option<Interrupt> {
    unsafe {
        let idx = (d as *const internals::SimDevice).offset_from(POLL_BASE) as usize;
        if idx < 4 {
            POLL_CALLS[idx] += 1;
            POLL_RET[idx].map(|(v, p)| Interrupt::vectored(v, p))
        } else { None }
    }
}
/// C10 arbitration: every device is polled exactly once and the highest-priority pending request wins.
fn poll_case(n: usize) {
    let mut h = DeviceHandler::verif_any(n);
    let rets: [Option<(u8, u8)>; 4] = kani::any();
    unsafe { POLL_RET = rets; POLL_BASE = h.devices.as_ptr(); }
    let r = h.poll_interrupt();
    let mut best: Option<u8> = None;
    let mut i = 0;
    while i < 4 {
        if i < n {
            unsafe { assert!(POLL_CALLS[i] == 1, "C10.arb: every device polled exactly once"); }
            if let Some((_, p)) = rets[i] { let p = if p > 7 { 7 } else { p }; if best.map_or(true, |b| p > b) { best = Some(p); } }
        }
        i += 1;
    }
    kani::cover!(best.is_some(), "pending request reachable");
    match r {
        None => assert!(best.is_none(), "C10.arb: a pending request is never dropped"),
        Some(int) => {
            assert!(best.is_some(), "C10.arb: no interrupt is invented");
            assert!(int.priority() == best, "C10.arb: the highest-priority pending request wins");
            let mut found = false;
            let mut i = 0;
            while i < 4 {
                if i < n { if let (Some((v, p)), InterruptKind::Vectored { vect, priority }) = (rets[i], &int.kind) {
                    if v == *vect && (if p > 7 { 7 } else { p }) == *priority { found = true; } } }
                i += 1;
            }
            assert!(found, "C10.arb: the winner is one of the pending requests");
        }
    }
}
#[kani::proof] #[kani::stub(<internals::SimDevice as ExternalDevice>::poll_interrupt, stub_slot_poll)] #[kani::unwind(6)]
fn poll_arbitration_3() { poll_case(3) }
#[kani::proof] #[kani::stub(<internals::SimDevice as ExternalDevice>::poll_interrupt, stub_slot_poll)] #[kani::unwind(6)]
fn poll_arbitration_4() { poll_case(4) }

static mut RESET_CALLS: [u32; 4] = [0; 4];
fn stub_slot_reset(d: &mut internals::SimDevice) {
    unsafe { let idx = (d as *const internals::SimDevice).offset_from(POLL_BASE) as usize; if idx < 4 { RESET_CALLS[idx] += 1; } }
}
/// C30: io_reset resets every attached device exactly once.
#[kani::proof] #[kani::stub(<internals::SimDevice as ExternalDevice>::io_reset, stub_slot_reset)] #[kani::unwind(6)]
fn io_reset_all() {
    let mut h = DeviceHandler::verif_any(4);
    unsafe { POLL_BASE = h.devices.as_ptr(); }
    h.io_reset();
    let mut i = 0;
    while i < 4 { unsafe { assert!(RESET_CALLS[i] == 1, "C30.io_reset: every device reset exactly once"); } i += 1; }
}

