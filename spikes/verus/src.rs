use vstd::prelude::*;
use std::ops::Range;
verus! {

pub struct SourceInfo {
    pub src: String,
    pub nl_indices: Vec<usize>
}

impl SourceInfo {
    pub fn count_lines(&self) -> (r: usize) 
        ensures r == self.nl_indices.len()
    {
        // The first line, plus every line after (delimited by a new line)
        self.nl_indices.len()
    }

    fn raw_line_span(&self, line: usize) -> (r: Option<Range<usize>>) 
    {
        // Implementation detail:
        // number of lines = self.nl_indices.len() + 1
        if !(0..self.count_lines()).contains(&line) {
            return None;
        };

        let start = match line {
            0 => 0,
            _ => self.nl_indices[line - 1] + 1
        };

        let eof = self.src.len();
        let end = match self.nl_indices.get(line) {
            Some(i) => (i + 1).min(eof), // incl NL, but don't go over EOF
            None => eof,
        };
        
        Some(start..end)
    }
    fn get_line(&self, index: usize) -> usize {
        self.nl_indices.partition_point(|&start| start < index)
    }
}
} // verus!
fn main() {}
