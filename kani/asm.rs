// Kani contracts for src/asm.rs (overlaid as `crate::asm::verif_kani`).
// C01 (sizes, alias table, label offsets), C02 (range overlap, offset fit), C07 (structural leg of
// disassemble -> reassemble), C23 (symbol-table queries, one-label tables), C25 (source positions).
use super::*;
use crate::ast::{Label, Offset, PCOffset, ImmOrReg, Reg};
use crate::ast::asm::{AsmInstr, Directive, Stmt, StmtKind};
use crate::ast::sim::SimInstr;

pub(crate) fn stub_random_state() -> std::hash::RandomState {
    // RandomState::new() reads OS randomness (not modelled by Kani). Hash keys do not affect map semantics.
    unsafe { std::mem::transmute::<[u64; 2], std::hash::RandomState>([0, 0]) }
}
/// `str::to_uppercase` is reached only through label operands; harnesses whose operands are all numeric
/// replace it by a function that panics (if the arm were reachable the harness fails: a checked claim).
fn unreachable_upper(_s: &str) -> String { panic!("label arm must be unreachable in this harness") }

fn any_reg() -> Reg { let r: u8 = kani::any(); kani::assume(r < 8); Reg::try_from(r).unwrap() }
fn any_ioff<const N: u32>() -> Offset<i16, N> {
    let v: i16 = kani::any();
    kani::assume((v as i32) >= -(1i32 << (N - 1)) && (v as i32) <= (1i32 << (N - 1)) - 1);
    Offset::new(v).unwrap()
}
fn any_imm_or_reg<const N: u32>() -> ImmOrReg<N> { if kani::any() { ImmOrReg::Imm(any_ioff::<N>()) } else { ImmOrReg::Reg(any_reg()) } }
fn empty_sym() -> SymbolTable { SymbolTable { label_map: HashMap::new(), rel_map: HashMap::new(), debug_symbols: None } }

// ---- C01 (i): directive sizes ---------------------------------------------------------------------
/// `Directive::word_len`: .fill = 1, .blkw n = n, .orig/.end/.external = 0 (complete);
/// .stringz s = bytes of s + 1 (BOUNDED: |s| <= 4, contents arbitrary ASCII).
#[kani::proof]
#[kani::unwind(8)]
fn directive_word_len() {
    let n: u16 = kani::any();
    assert!(Directive::Orig(Offset::new_trunc(n)).word_len() == 0, "C01.size: .orig occupies no memory");
    assert!(Directive::End.word_len() == 0, "C01.size: .end occupies no memory");
    assert!(Directive::Fill(PCOffset::Offset(Offset::new_trunc(n))).word_len() == 1, "C01.size: .fill is one word");
    assert!(Directive::Blkw(Offset::new_trunc(n)).word_len() == n, "C01.size: .blkw n is n words");
    let len: usize = kani::any();
    kani::assume(len <= 4);
    let mut s = String::with_capacity(4);
    let mut i = 0;
    while i < 4 { if i < len { let c: u8 = kani::any(); kani::assume(c < 0x80); s.push(c as char); } i += 1; }
    assert!(Directive::Stringz(s).word_len() as usize == len + 1, "C01.size: .stringz is its bytes plus a zero word");
}
/// .stringz with a multi-byte character: the size counts bytes (one word per byte is emitted by pass 2).
#[kani::proof]
#[kani::unwind(8)]
fn directive_word_len_multibyte() {
    let s = String::from("a\u{e9}\u{20ac}"); // 1 + 2 + 3 bytes
    assert!(Directive::Stringz(s).word_len() == 7, "C01.size: .stringz size is counted in bytes, as emitted");
}

// ---- C01 (iii): aliases and operand pass-through ---------------------------------------------------
/// `AsmInstr::into_sim_instr` for every instruction whose operands are numeric: the tabled `SimInstr`.
#[kani::proof]
#[kani::stub(std::hash::RandomState::new, stub_random_state)]
#[kani::stub(str::to_uppercase, unreachable_upper)]
#[kani::unwind(8)]
fn into_sim_instr_table() {
    let pc: u16 = kani::any();
    let sym = empty_sym();
    let k: u8 = kani::any();
    kani::assume(k < 25);
    let (a, b) = (any_reg(), any_reg());
    let o9 = any_ioff::<9>(); let o11 = any_ioff::<11>(); let o6 = any_ioff::<6>();
    let ir = any_imm_or_reg::<5>();
    let tv: u16 = kani::any(); kani::assume(tv < 256);
    let cc: u8 = kani::any(); kani::assume(cc < 8);
    let t = |v: u16| SimInstr::TRAP(Offset::new(v).unwrap());
    let (ai, want) = match k {
        0 => (AsmInstr::ADD(a, b, ir), SimInstr::ADD(a, b, ir)),
        1 => (AsmInstr::AND(a, b, ir), SimInstr::AND(a, b, ir)),
        2 => (AsmInstr::BR(cc, PCOffset::Offset(o9)), SimInstr::BR(cc, o9)),
        3 => (AsmInstr::JMP(a), SimInstr::JMP(a)),
        4 => (AsmInstr::JSR(PCOffset::Offset(o11)), SimInstr::JSR(ImmOrReg::Imm(o11))),
        5 => (AsmInstr::JSRR(a), SimInstr::JSR(ImmOrReg::Reg(a))),
        6 => (AsmInstr::LD(a, PCOffset::Offset(o9)), SimInstr::LD(a, o9)),
        7 => (AsmInstr::LDI(a, PCOffset::Offset(o9)), SimInstr::LDI(a, o9)),
        8 => (AsmInstr::LDR(a, b, o6), SimInstr::LDR(a, b, o6)),
        9 => (AsmInstr::LEA(a, PCOffset::Offset(o9)), SimInstr::LEA(a, o9)),
        10 => (AsmInstr::NOT(a, b), SimInstr::NOT(a, b)),
        11 => (AsmInstr::RET, SimInstr::JMP(Reg::R7)),
        12 => (AsmInstr::RTI, SimInstr::RTI),
        13 => (AsmInstr::ST(a, PCOffset::Offset(o9)), SimInstr::ST(a, o9)),
        14 => (AsmInstr::STI(a, PCOffset::Offset(o9)), SimInstr::STI(a, o9)),
        15 => (AsmInstr::STR(a, b, o6), SimInstr::STR(a, b, o6)),
        16 => (AsmInstr::TRAP(Offset::new(tv).unwrap()), t(tv)),
        17 => (AsmInstr::NOP(PCOffset::Offset(o9)), SimInstr::BR(0, o9)),
        18 => (AsmInstr::GETC, t(0x20)),
        19 => (AsmInstr::OUT, t(0x21)),
        20 => (AsmInstr::PUTC, t(0x21)),
        21 => (AsmInstr::PUTS, t(0x22)),
        22 => (AsmInstr::IN, t(0x23)),
        23 => (AsmInstr::PUTSP, t(0x24)),
        _ => (AsmInstr::HALT, t(0x25)),
    };
    match ai.into_sim_instr(pc, &sym) {
        Ok(si) => assert!(si == want, "C01.alias: aliases expanded and numeric operands passed through unchanged"),
        Err(_) => assert!(false, "C01.alias: an instruction without label operands always assembles"),
    }
}

/// C02: every label operand must be defined -- whichever instruction takes it: with an undefined label the
/// instruction does not assemble and the error names the label.  One obligation per instruction (with the instruction
/// symbolic the eight `to_uppercase` paths did not finish in 25 min).
fn undefined_label(k: u8) {
    let pc: u16 = kani::any();
    let sym = empty_sym();
    let a = any_reg();
    let cc: u8 = kani::any(); kani::assume(cc < 8);
    let ai = match k {
        0 => AsmInstr::BR(cc, PCOffset::Label(Label::new(String::from("a"), 3..4))),
        1 => AsmInstr::JSR(PCOffset::Label(Label::new(String::from("a"), 3..4))),
        2 => AsmInstr::LD(a, PCOffset::Label(Label::new(String::from("a"), 3..4))),
        3 => AsmInstr::LDI(a, PCOffset::Label(Label::new(String::from("a"), 3..4))),
        4 => AsmInstr::LEA(a, PCOffset::Label(Label::new(String::from("a"), 3..4))),
        5 => AsmInstr::ST(a, PCOffset::Label(Label::new(String::from("a"), 3..4))),
        6 => AsmInstr::STI(a, PCOffset::Label(Label::new(String::from("a"), 3..4))),
        _ => AsmInstr::NOP(PCOffset::Label(Label::new(String::from("a"), 3..4))),
    };
    match ai.into_sim_instr(pc, &sym) {
        Ok(_) => assert!(false, "C02.label: an instruction whose label operand is undefined does not assemble"),
        Err(e) => { assert!(matches!(e.kind, AsmErrKind::CouldNotFindLabel), "C02.kind: undefined label");
                    assert!(e.span.first() == (3..4), "C26.span: a label error covers the offending label");
                    std::mem::forget(e); }
    }
}
macro_rules! undefined_label_harness {
    ($name:ident, $k:literal) => {
        #[kani::proof] #[kani::stub(std::hash::RandomState::new, stub_random_state)] #[kani::unwind(8)]
        fn $name() { undefined_label($k) }
    };
}
undefined_label_harness!(undefined_label_br, 0);
undefined_label_harness!(undefined_label_jsr, 1);
undefined_label_harness!(undefined_label_ld, 2);
undefined_label_harness!(undefined_label_ldi, 3);
undefined_label_harness!(undefined_label_lea, 4);
undefined_label_harness!(undefined_label_st, 5);
undefined_label_harness!(undefined_label_sti, 6);
undefined_label_harness!(undefined_label_nop, 7);

// ---- C01 (iv) / C02: label operand -> PC offset ----------------------------------------------------
/// `replace_pc_offset::<N>` on a label (BOUNDED: table with one label, one-letter name; one obligation per
/// (table entry, query spelling) so that `to_uppercase` runs on concrete text; addresses, PC, external flag symbolic):
/// Ok(off) <=> (target - pc) fits N bits, off = target - pc; external => OffsetExternal; absent => CouldNotFindLabel.
fn label_offset<const N: u32>(entry: &'static str, query: &'static str) {
    let addr: u16 = kani::any();
    let pc: u16 = kani::any();
    let external: bool = kani::any();
    let present = entry == "A";
    let mut label_map = HashMap::new();
    label_map.insert(String::from(entry), SymbolData { addr, src_start: 0, external });
    let sym = SymbolTable { label_map, rel_map: HashMap::new(), debug_symbols: None };
    let r = replace_pc_offset::<N>(PCOffset::Label(Label::new(String::from(query), 3..4)), pc, &sym);
    let d = addr.wrapping_sub(pc) as i16;
    let lo = -(1i32 << (N - 1)); let hi = (1i32 << (N - 1)) - 1;
    let fits = (d as i32) >= lo && (d as i32) <= hi;
    kani::cover!(!present || (!external && fits), "resolved label reachable");
    match r {
        Ok(off) => { assert!(present && !external && fits, "C02.offset: a label operand resolves only when defined, not external and in range");
                     assert!(off.get() == d, "C01.offset: the operand is the label address minus the address of the following word"); }
        Err(e) => {
            assert!(e.span.first() == (3..4), "C26.span: a label error covers the offending label");
            match e.kind {
                AsmErrKind::CouldNotFindLabel => assert!(!present, "C02.kind: undefined label"),
                AsmErrKind::OffsetExternal => assert!(present && external, "C02.kind: external label used as a PC offset"),
                AsmErrKind::OffsetNewErr(_) => assert!(present && !external && !fits, "C02.kind: offset does not fit the field"),
                _ => assert!(false, "C02.kind: the error kind names the violated condition"),
            }
        }
    }
}
macro_rules! label_offset_harness {
    ($name:ident, $n:literal, $entry:literal, $query:literal) => {
        #[kani::proof] #[kani::stub(std::hash::RandomState::new, stub_random_state)] #[kani::unwind(6)]
        fn $name() { label_offset::<$n>($entry, $query) }
    };
}
label_offset_harness!(label_offset_9_lower, 9, "A", "a");
label_offset_harness!(label_offset_9_upper, 9, "A", "A");
label_offset_harness!(label_offset_9_absent, 9, "B", "a");
label_offset_harness!(label_offset_11_lower, 11, "A", "a");
label_offset_harness!(label_offset_11_upper, 11, "A", "A");
label_offset_harness!(label_offset_11_absent, 11, "B", "A");
/// numeric operand: returned unchanged, whatever the PC (complete)
#[kani::proof] #[kani::stub(std::hash::RandomState::new, stub_random_state)] #[kani::stub(str::to_uppercase, unreachable_upper)] #[kani::unwind(6)]
fn numeric_offset_passthrough() {
    let sym = empty_sym();
    let o = any_ioff::<9>();
    match replace_pc_offset::<9>(PCOffset::Offset(o), kani::any(), &sym) { Ok(r) => assert!(r == o, "C01.offset: a numeric offset is used as written"), Err(_) => assert!(false, "C01.offset: a numeric offset never fails") }
}

// ---- C02: block overlap ----------------------------------------------------------------------------
#[kani::proof]
fn ranges_overlap_contract() {
    let (a0, a1, b0, b1): (u16, u16, u16, u16) = (kani::any(), kani::any(), kani::any(), kani::any());
    // precondition from the call sites: blocks are non-empty (empty blocks are skipped before the test)
    kani::assume(a0 < a1 && b0 < b1);
    // two half-open intervals intersect iff some x lies in both <=> max(starts) < min(ends)
    let want = a0.max(b0) < a1.min(b1);
    kani::cover!(want, "overlap reachable");
    kani::cover!(a1 == b0 && a0 < a1 && b0 < b1, "touching blocks reachable");
    assert!(ranges_overlap(a0..a1, b0..b1) == want, "C02.overlap: true exactly when the two half-open ranges share an address");
    if a1 == b0 { assert!(!ranges_overlap(a0..a1, b0..b1), "C02.overlap: touching blocks do not overlap"); }
    let (x0, x1, y0, y1): (usize, usize, usize, usize) = (a0 as usize, a1 as usize, b0 as usize, b1 as usize);
    assert!(ranges_overlap(x0..x1, y0..y1) == want, "C02.overlap: same for the usize instance used by the linker");
}

// ---- C07: disassemble -> (structurally) reassemble --------------------------------------------------
/// For every 16-bit word: words below x0200 and non-instructions come back as `.fill w`; otherwise the
/// statement, pushed through `into_sim_instr(any pc).encode()`, gives the word back; JMP R7 is RET and
/// TRAP x20..x25 are the named aliases.  (The print -> lex -> parse leg is text processing: assumed.)
#[kani::proof]
#[kani::stub(std::hash::RandomState::new, stub_random_state)]
#[kani::stub(str::to_uppercase, unreachable_upper)]
#[kani::unwind(8)]
fn disassemble_reassemble() {
    let w: u16 = kani::any();
    let pc: u16 = kani::any();
    let sym = empty_sym();
    let st = crate::ast::asm::disassemble_line(w);
    assert!(st.labels.is_empty(), "C07: a disassembled statement has no labels");
    let decodes = SimInstr::decode(w).is_ok();
    kani::cover!(w >= 0x0200 && !decodes, "non-instruction above x0200 reachable");
    assert!(crate::ast::asm::try_disassemble_line(w).is_some() == (w >= 0x0200 && decodes), "C07.try: None exactly for words below x0200 and non-instructions");
    match st.nucleus {
        StmtKind::Instr(i) => {
            assert!(w >= 0x0200 && decodes, "C07.fill: words below x0200 and non-instructions are not instructions");
            if w == 0xC1C0 { assert!(matches!(i, AsmInstr::RET), "C07.alias: JMP R7 prints as RET"); }
            if w >> 8 == 0xF0 {
                let named = matches!(i, AsmInstr::GETC | AsmInstr::OUT | AsmInstr::PUTC | AsmInstr::PUTS | AsmInstr::IN | AsmInstr::PUTSP | AsmInstr::HALT);
                assert!(named == ((w & 0xFF) >= 0x20 && (w & 0xFF) <= 0x25), "C07.alias: TRAP x20..x25 print by name");
                if w == 0xF025 { assert!(matches!(i, AsmInstr::HALT), "C07.alias: HALT"); }
                if w == 0xF020 { assert!(matches!(i, AsmInstr::GETC), "C07.alias: GETC"); }
                if w == 0xF022 { assert!(matches!(i, AsmInstr::PUTS), "C07.alias: PUTS"); }
                if w == 0xF023 { assert!(matches!(i, AsmInstr::IN), "C07.alias: IN"); }
                if w == 0xF024 { assert!(matches!(i, AsmInstr::PUTSP), "C07.alias: PUTSP"); }
            }
            match i.into_sim_instr(pc, &sym) {
                Ok(s) => assert!(s.encode() == w, "C07.roundtrip: the statement reassembles to the same word at any address"),
                Err(_) => assert!(false, "C07.roundtrip: a disassembled statement always assembles"),
            }
        }
        StmtKind::Directive(Directive::Fill(PCOffset::Offset(o))) => {
            assert!(o.get() == w, "C07.fill: .fill carries the word");
            assert!(w < 0x0200 || !decodes, "C07.fill: only words below x0200 and non-instructions come back as .fill");
        }
        _ => assert!(false, "C07: an instruction or a .fill"),
    }
}

// ---- C25: source positions (index arithmetic; BOUNDED: text of LEN bytes with N newlines) ---------------
/// The table is built directly (`from_string`'s `match_indices` scan is `str` searching: assumed): LEN bytes,
/// N newlines at symbolic increasing positions a < b.
fn source_info_case<const LEN: usize, const N: usize>() {
    let a: usize = kani::any(); let b: usize = kani::any();
    if N >= 1 { kani::assume(a < LEN); }
    if N >= 2 { kani::assume(a < b && b < LEN); }
    let mut nl = Vec::with_capacity(3);
    if N >= 1 { nl.push(a); }
    if N >= 2 { nl.push(b); }
    nl.push(LEN);
    let src = "aaaaaaaa"[..LEN].to_string();
    let si = SourceInfo { src, nl_indices: nl };
    assert!(si.count_lines() == N + 1, "C25.count: number of newlines plus one");
    // start of line k: 0 for k = 0, else one past the (k-1)-th newline
    let start = |k: usize| if k == 0 { 0 } else if k == 1 { a + 1 } else { b + 1 };
    let nl_of = |k: usize| if k >= N { LEN } else if k == 0 { a } else { b };
    // raw span of line k: from its start up to and including its newline, clipped to the text
    let k: usize = kani::any();
    kani::assume(k <= N + 1);
    match si.raw_line_span(k) {
        Some(r) => { assert!(k <= N, "C25.span: only existing lines have a span");
                     assert!(r.start == start(k) && r.end == (nl_of(k) + 1).min(LEN), "C25.span: a line runs from its start through its newline"); }
        None => assert!(k > N, "C25.span: every existing line has a span"),
    }
    let idx: usize = kani::any();
    kani::assume(idx <= LEN + 10);
    let (l, c) = si.get_pos_pair(idx);
    assert!(l <= N, "C25.pos: the line is an existing line (the last one for an index past the end)");
    assert!(start(l) + c == idx, "C25.pos: the line starts `column` bytes before the index");
    if idx <= LEN { assert!(idx <= nl_of(l), "C25.pos: the index lies on that line (at or before its newline)"); }
    else { assert!(l == N, "C25.pos: past the end -> last line"); }
}
#[kani::proof] #[kani::unwind(10)] fn source_info_0_0() { source_info_case::<0, 0>() }
#[kani::proof] #[kani::unwind(10)] fn source_info_3_0() { source_info_case::<3, 0>() }
#[kani::proof] #[kani::unwind(10)] fn source_info_3_1() { source_info_case::<3, 1>() }
#[kani::proof] #[kani::unwind(10)] fn source_info_6_2() { source_info_case::<6, 2>() }
#[kani::proof] #[kani::unwind(10)] fn source_info_8_2() { source_info_case::<8, 2>() }
#[kani::proof] #[kani::unwind(10)] fn source_info_8_1() { source_info_case::<8, 1>() }   // thorough tier
#[kani::proof] #[kani::unwind(10)] fn source_info_5_2() { source_info_case::<5, 2>() }   // thorough tier

/// `SourceInfo::get_line` against the contract the Verus unit `srcinfo` assumes for it (partition point of the
/// strictly increasing newline table).  BOUNDED: tables of K entries, entries and index symbolic.
fn get_line_case<const K: usize>() {
    let t: [usize; K] = kani::any();
    let mut i = 0;
    while i + 1 < K { kani::assume(t[i] < t[i + 1]); i += 1; }
    let mut v = Vec::with_capacity(K);
    let mut i = 0;
    while i < K { v.push(t[i]); i += 1; }
    let si = SourceInfo { src: String::new(), nl_indices: v };
    let index: usize = kani::any();
    let k = si.get_line(index);
    assert!(k <= K, "C25.get_line: at most the number of table entries");
    let mut i = 0;
    while i < K {
        if i < k { assert!(t[i] < index, "C25.get_line: every newline before the returned line lies before the index"); }
        else { assert!(t[i] >= index, "C25.get_line: every newline from the returned line on lies at or after the index"); }
        i += 1;
    }
    std::mem::forget(si);
}
#[kani::proof] #[kani::unwind(8)] fn get_line_1() { get_line_case::<1>() }
#[kani::proof] #[kani::unwind(8)] fn get_line_2() { get_line_case::<2>() }
#[kani::proof] #[kani::unwind(8)] fn get_line_3() { get_line_case::<3>() }
#[kani::proof] #[kani::unwind(8)] fn get_line_4() { get_line_case::<4>() }
#[kani::proof] #[kani::unwind(10)] fn get_line_7() { get_line_case::<7>() }   // thorough tier

/// C25 trimming: `line_span` / `read_line` = the line without surrounding whitespace (BOUNDED: ASCII text of LEN
/// bytes, N newlines; bytes symbolic).  Reference: explicit scan for the ASCII white-space set of `char::is_whitespace`.
fn is_ws(b: u8) -> bool { b == b' ' || (b >= 9 && b <= 13) }
fn line_span_case<const LEN: usize, const N: usize>() {
    let a: usize = kani::any();
    if N >= 1 { kani::assume(a < LEN); }
    let mut bytes = [b'x'; 4];
    let mut i = 0;
    while i < LEN {
        let c: u8 = kani::any();
        kani::assume(c < 0x80);
        kani::assume((c == b'\n') == (N >= 1 && i == a));
        bytes[i] = c;
        i += 1;
    }
    let src = std::str::from_utf8(&bytes[..LEN]).unwrap().to_string();
    let mut nl = Vec::with_capacity(2);
    if N >= 1 { nl.push(a); }
    nl.push(LEN);
    let si = SourceInfo { src, nl_indices: nl };
    let k: usize = kani::any();
    kani::assume(k <= N);
    let (rs, re) = if k == 0 { (0, if N >= 1 { a + 1 } else { LEN }) } else { (a + 1, LEN) };
    // expected: skip white space from both ends of [rs, re)
    let mut e = re;
    let mut j = 0;
    while j < LEN { if e > rs && is_ws(bytes[e - 1]) { e -= 1; } j += 1; }
    let mut st = rs;
    let mut j = 0;
    while j < LEN { if st < e && is_ws(bytes[st]) { st += 1; } j += 1; }
    kani::cover!(LEN < 3 || (st > rs && e < re && st < e), "line with leading and trailing white space reachable");
    match si.line_span(k) {
        Some(r) => assert!(r.start == st && r.end == e, "C25.trim: the span of a line is that line without surrounding white space"),
        None => assert!(false, "C25.trim: every existing line has a span"),
    }
    match si.read_line(k) {
        Some(t) => assert!(t.len() == e - st && (t.is_empty() || (!is_ws(t.as_bytes()[0]) && !is_ws(t.as_bytes()[t.len() - 1]))), "C25.trim: the text of a line has no surrounding white space"),
        None => assert!(false, "C25.trim: every existing line has text"),
    }
    assert!(si.line_span(N + 1).is_none() && si.read_line(N + 1).is_none(), "C25.trim: no line past the last one");
}
#[kani::proof] #[kani::unwind(8)] fn line_span_2_0() { line_span_case::<2, 0>() }
#[kani::proof] #[kani::unwind(8)] fn line_span_3_1() { line_span_case::<3, 1>() }
#[kani::proof] #[kani::unwind(8)] fn line_span_4_1() { line_span_case::<4, 1>() }

// ---- C23: symbol-table queries (BOUNDED: one label with a one-letter name, query in either letter case) ---
fn one_label_table(addr: u16, src_start: usize, external: bool) -> SymbolTable {
    let mut label_map = HashMap::new();
    label_map.insert(String::from("Q"), SymbolData { addr, src_start, external });
    SymbolTable { label_map, rel_map: HashMap::new(), debug_symbols: None }
}
fn symtab_lookup(query: &'static str) {
    let (addr, external): (u16, bool) = (kani::any(), kani::any());
    kani::assume(!external || addr == 0);
    let sym = one_label_table(addr, 7, external);
    let r = sym.lookup_label(query);
    if query == "z" || query == "Z" { assert!(r.is_none(), "C23.lookup: a name not in the program gives no result"); }
    else { assert!(r == Some(addr), "C23.lookup: under any letter case the address of the labelled statement (0 for an external)"); }
}
fn symtab_source(query: &'static str) {
    let src_start: usize = kani::any();
    kani::assume(src_start < 1000);
    let sym = one_label_table(kani::any(), src_start, false);
    let r = sym.get_label_source(query);
    if query == "z" || query == "Z" { assert!(r.is_none(), "C23.source: a name not in the program gives no result"); }
    else { assert!(r == Some(src_start..src_start + 1), "C23.source: under any letter case the span of the label's first occurrence"); }
}
macro_rules! symtab_harness {
    ($name:ident, $f:ident, $q:literal) => {
        #[kani::proof] #[kani::stub(std::hash::RandomState::new, stub_random_state)] #[kani::unwind(6)]
        fn $name() { $f($q) }
    };
}
symtab_harness!(symtab_lookup_upper, symtab_lookup, "Q");
symtab_harness!(symtab_lookup_lower, symtab_lookup, "q");
symtab_harness!(symtab_lookup_other, symtab_lookup, "z");
symtab_harness!(symtab_source_upper, symtab_source, "Q");
symtab_harness!(symtab_source_lower, symtab_source, "q");
symtab_harness!(symtab_source_other, symtab_source, "Z");
#[kani::proof] #[kani::stub(std::hash::RandomState::new, stub_random_state)] #[kani::unwind(6)]
fn symtab_rev_lookup_and_iter() {
    let (addr, external): (u16, bool) = (kani::any(), kani::any());
    let sym = one_label_table(addr, 0, external);
    let probe: u16 = kani::any();
    let r = sym.rev_lookup_label(probe);
    if probe == addr { assert!(r == Some("Q"), "C23.rev: the reverse lookup of a label's address returns a label recorded there"); }
    else { assert!(r.is_none(), "C23.rev: no label, no result"); }
    let mut it = sym.label_iter();
    assert!(it.next() == Some(("Q", addr, external)), "C23.list: the listing holds the label with its address and external flag");
    assert!(it.next().is_none(), "C23.list: and nothing else");
}

// ---- pass 1's label recording: `add_label` (nested in SymbolTable::new; text copied verbatim into the generated
// sibling module `verif_kani_gen` on every run) -- C02 (duplicate labels), C23 (first occurrence kept), C26 (spans)
use super::verif_kani_gen::add_label;
/// A name not yet in the table is recorded under its upper-cased spelling with the given address, the start of
/// its span and its external flag.  BOUNDED: two-letter name "Ab".
#[kani::proof] #[kani::stub(std::hash::RandomState::new, stub_random_state)] #[kani::unwind(6)]
fn add_label_vacant() {
    let mut m: HashMap<String, SymbolData> = HashMap::new();
    let (addr, external): (u16, bool) = (kani::any(), kani::any());
    let start: usize = kani::any();
    kani::assume(start < 1000);
    let r = add_label(&mut m, &Label::new(String::from("Ab"), start..start + 2), addr, external);
    assert!(r.is_ok(), "C02.label: a new label is accepted");
    assert!(m.len() == 1, "C23.list: exactly one entry recorded");
    match m.get("AB") {
        Some(d) => assert!(d.addr == addr && d.src_start == start && d.external == external, "C23.record: recorded under the upper-cased name with its address, first occurrence and external flag"),
        None => assert!(false, "C23.record: the label is recorded under its upper-cased name"),
    }
}
// (The occupied case -- same name again at the same / a different address -- was written as two further obligations;
//  `HashMap::entry` on a non-empty `HashMap<String,_>` reached no verdict in 50 min each, see DESIGN section 8.)
