// Kani contracts for src/sim/device.rs, second module (overlaid as `crate::sim::device::verif_kani_poll`): device
// arbitration when external (host) interrupts are present too (C10 / C34: every device is polled exactly once per
// instruction boundary whatever the other devices report -- a timer's count is a count of polls).
use super::*;

#[derive(Clone, Copy, PartialEq, Eq)]
enum Req { Nothing, Vectored(u8, u8), External }
impl kani::Arbitrary for Req {
    fn any() -> Self { match kani::any::<u8>() % 3 { 0 => Req::Nothing, 1 => Req::Vectored(kani::any(), kani::any()), _ => Req::External } }
}
#[derive(Debug)]
struct HostStop;
impl std::fmt::Display for HostStop { fn fmt(&self, _f: &mut std::fmt::Formatter<'_>) -> std::fmt::Result { Ok(()) } }
impl std::error::Error for HostStop {}

static mut P_RET: [Req; 4] = [Req::Nothing; 4];
static mut P_CALLS: [u32; 4] = [0; 4];
static mut P_BASE: *const internals::SimDevice = std::ptr::null();
fn stub_poll(d: &mut internals::SimDevice) -> Option<Interrupt> {
    unsafe {
        let idx = (d as *const internals::SimDevice).offset_from(P_BASE) as usize;
        if idx < 4 {
            P_CALLS[idx] += 1;
            match P_RET[idx] { Req::Nothing => None, Req::Vectored(v, p) => Some(Interrupt::vectored(v, p)), Req::External => Some(Interrupt::external(HostStop)) }
        } else { None }
    }
}
fn poll_ext_case(n: usize) {
    let mut h = DeviceHandler::verif_any(n);
    let rets: [Req; 4] = kani::any();
    unsafe { P_RET = rets; P_BASE = h.devices.as_ptr(); }
    let r = h.poll_interrupt();
    let mut any_ext = false; let mut best: Option<u8> = None;
    let mut i = 0;
    while i < 4 {
        if i < n {
            unsafe { assert!(P_CALLS[i] == 1, "C10.arb: every device is polled exactly once per boundary, whatever the others report"); }
            match rets[i] { Req::External => any_ext = true, Req::Vectored(_, p) => { let p = if p > 7 { 7 } else { p }; if best.map_or(true, |b| p > b) { best = Some(p); } }, Req::Nothing => {} }
        }
        i += 1;
    }
    kani::cover!(any_ext && best.is_some(), "external and vectored request at one boundary reachable");
    match &r {
        None => assert!(!any_ext && best.is_none(), "C10.arb: a pending request is never dropped"),
        Some(int) => match &int.kind {
            // (which of an external and a vectored request wins is not constrained by the property)
            InterruptKind::External(_) => assert!(any_ext, "C10.arb: no interrupt is invented"),
            InterruptKind::Vectored { priority, .. } => assert!(Some(*priority) == best, "C10.arb: among vectored requests the highest priority wins"),
        },
    }
    std::mem::forget(r);
}
#[kani::proof] #[kani::stub(<internals::SimDevice as ExternalDevice>::poll_interrupt, stub_poll)] #[kani::unwind(6)]
fn poll_with_external_3() { poll_ext_case(3) }
#[kani::proof] #[kani::stub(<internals::SimDevice as ExternalDevice>::poll_interrupt, stub_poll)] #[kani::unwind(6)]
fn poll_with_external_4() { poll_ext_case(4) }
