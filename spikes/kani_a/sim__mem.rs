}
#[cfg(kani)]
pub(crate) mod verif_kani_hooks {
    use super::*;
    impl kani::Arbitrary for Word {
        fn any() -> Self { Word { data: kani::any(), init: kani::any() } }
        fn any_array<const N: usize>() -> [Self; N] {
            let raw: [u32; N] = kani::any();
            // SAFETY: Word is two u16 fields; every bit pattern is a valid Word.
            unsafe { std::ptr::read(&raw as *const [u32; N] as *const [Word; N]) }
        }
    }
    impl MemArray {
        pub(crate) fn kani_any() -> Self { MemArray(unsafe { Box::<[Word; 1 << 16]>::new_uninit().assume_init() }) }
    }
    impl RegFile {
        pub(crate) fn kani_any() -> Self { RegFile(kani::any()) }
    }
    impl Word {
        pub(crate) fn init_mask(&self) -> u16 { self.init }
    }
    fn agree(a: Word, b: Word) -> bool { a.init == b.init && (a.data & a.init) == (b.data & b.init) }
    #[kani::proof]
    fn word_ops_sound() {
        let (a, b, a2, b2): (Word, Word, Word, Word) = (kani::any(), kani::any(), kani::any(), kani::any());
        kani::assume(agree(a, a2) && agree(b, b2));
        let op: u8 = kani::any();
        let (r, r2) = match op { 0 => (a + b, a2 + b2), 1 => (a - b, a2 - b2), 2 => (a & b, a2 & b2), _ => (!a, !a2) };
        assert!(r.init == r2.init);
        assert!((r.data & r.init) == (r2.data & r2.init));
        if a.is_init() && b.is_init() {
            assert!(r.is_init());
            let want = match op { 0 => a.data.wrapping_add(b.data), 1 => a.data.wrapping_sub(b.data), 2 => a.data & b.data, _ => !a.data };
            assert!(r.data == want);
        }
    }
}
