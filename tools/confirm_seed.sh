#!/bin/bash
# usage: confirm_seed.sh <agent-out-dir> <n> <seed-id>
# Confirms a seeded defect in a scratch worktree of /repo (outside /repo and /verif), then stores it under /verif/seeded/<seed-id>/.
# Checks: patch applies; crate builds; whole existing suite passes with the patch; demo fails with the patch; demo passes without it.
set -u
OUT=$1; N=$2; SID=$3
WT=/tmp/wt/confirm-$SID
LOG=/tmp/wtout/confirm-$SID.log
: > $LOG
git -C /repo worktree add --detach $WT HEAD >>$LOG 2>&1 || { echo "worktree failed"; exit 2; }
cleanup() { git -C /repo worktree remove --force $WT >>$LOG 2>&1; }
trap cleanup EXIT
cd $WT
mkdir -p tests
cp $OUT/demo$N.rs tests/seeded_demo.rs
export CARGO_NET_OFFLINE=true
echo "== demo on pristine" >>$LOG
cargo test --offline --test seeded_demo >>$LOG 2>&1; demo_clean=$?
git apply $OUT/patch$N.diff >>$LOG 2>&1 || { echo "$SID: patch does not apply"; exit 2; }
echo "== suite with patch" >>$LOG
cargo test --offline --lib >>$LOG 2>&1; suite=$?
npass=$(grep -E "^test result: ok\. [0-9]+ passed" $LOG | tail -1 | sed -E 's/.*ok\. ([0-9]+) passed.*/\1/')
cargo test --offline --doc >>$LOG 2>&1; doc=$?
echo "== demo with patch" >>$LOG
cargo test --offline --test seeded_demo >>$LOG 2>&1; demo_patched=$?
echo "$SID: demo_clean_rc=$demo_clean suite_rc=$suite (lib passed=$npass) doc_rc=$doc demo_patched_rc=$demo_patched"
if [ $demo_clean -eq 0 ] && [ $suite -eq 0 ] && [ $doc -eq 0 ] && [ $demo_patched -ne 0 ]; then
  D=/verif/seeded/$SID; mkdir -p $D
  cp $OUT/patch$N.diff $D/patch.diff; cp $OUT/demo$N.rs $D/demo.rs
  echo "$SID: CONFIRMED"
else
  echo "$SID: NOT CONFIRMED (see $LOG)"
fi
