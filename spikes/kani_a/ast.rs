}
#[cfg(kani)]
mod verif_kani {
    use super::*;
    fn check_i<const N: u32>() {
        let n: i16 = kani::any();
        let lo = -(1i32 << (N - 1)); let hi = (1i32 << (N - 1)) - 1;
        let fits = (n as i32) >= lo && (n as i32) <= hi;
        match Offset::<i16, N>::new(n) { Ok(o) => assert!(fits && o.get() == n), Err(e) => assert!(!fits && e == OffsetNewErr::CannotFitSigned(N)) }
        let t = Offset::<i16, N>::new_trunc(n).get() as i32;
        assert!(t >= lo && t <= hi && ((t - n as i32) & ((1i32 << N) - 1)) == 0);
    }
    fn check_u<const N: u32>() {
        let n: u16 = kani::any();
        let fits = (n as u32) < (1u32 << N);
        match Offset::<u16, N>::new(n) { Ok(o) => assert!(fits && o.get() == n), Err(e) => assert!(!fits && e == OffsetNewErr::CannotFitUnsigned(N)) }
        assert!(Offset::<u16, N>::new_trunc(n).get() as u32 == (n as u32) & ((1u32 << N) - 1));
    }
    #[kani::proof] fn offset_i_5() { check_i::<5>() }
    #[kani::proof] fn offset_i_16() { check_i::<16>() }
    #[kani::proof] fn offset_i_1() { check_i::<1>() }
    #[kani::proof] fn offset_u_8() { check_u::<8>() }
    #[kani::proof] fn offset_u_16() { check_u::<16>() }
}
