// Kani contracts for src/asm/encoding.rs (overlaid as `crate::asm::encoding::verif_kani`).
// C19 (partial, BOUNDED): the binary reader's slice helpers never panic for any slice of length <= 8
// and any requested count, and split the input exactly.  The readers themselves (BTreeMap/HashMap/String
// plumbing, `str` scanning) are outside this family's reach here (DESIGN C17/C18/C19).
use super::*;

fn any_bytes<const L: usize>() -> [u8; L] { kani::any() }

/// `try_split_at`, `take_slice`: Some exactly when n <= len; then (prefix of n bytes, rest) and the cursor advances by n.
fn split_case<const L: usize>() {
    let buf = any_bytes::<L>();
    let n: usize = kani::any();
    match try_split_at(&buf, n) {
        Some((l, r)) => { assert!(n <= L, "C19.split: Some only when enough bytes remain");
                          assert!(l.len() == n && r.len() == L - n, "C19.split: prefix of n bytes and the rest");
                          assert!(*l == buf[..n] && *r == buf[n..], "C19.split: no byte skipped or duplicated"); }
        None => assert!(n > L, "C19.split: None only when the request exceeds the input"),
    }
    let mut cur: &[u8] = &buf;
    match take_slice(&mut cur, n) {
        Some(l) => { assert!(n <= L && l.len() == n && cur.len() == L - n, "C19.take_slice: consumes exactly n bytes");
                     assert!(*l == buf[..n] && *cur == buf[n..], "C19.take_slice: the cursor continues right after the taken bytes"); }
        None => { assert!(n > L, "C19.take_slice: None only when the request exceeds the input");
                  assert!(cur.len() == L && *cur == buf[..], "C19.take_slice: a failed take leaves the cursor unchanged"); }
    }
}
#[kani::proof] #[kani::unwind(10)] fn split_0() { split_case::<0>() }
#[kani::proof] #[kani::unwind(10)] fn split_3() { split_case::<3>() }
#[kani::proof] #[kani::unwind(10)] fn split_8() { split_case::<8>() }

/// `take::<N>`: Some exactly when N <= len; the array holds the first N bytes (the inner `unwrap` cannot fail).
fn take_case<const L: usize, const N: usize>() {
    let buf = any_bytes::<L>();
    let mut cur: &[u8] = &buf;
    match take::<N>(&mut cur) {
        Some(a) => { assert!(N <= L && cur.len() == L - N, "C19.take: consumes exactly N bytes");
                     let mut i = 0; while i < N { assert!(a[i] == buf[i], "C19.take: the first N bytes, in order"); i += 1; } }
        None => assert!(N > L && cur.len() == L, "C19.take: None only when fewer than N bytes remain; cursor unchanged"),
    }
}
#[kani::proof] #[kani::unwind(10)] fn take_2_of_1() { take_case::<1, 2>() }
#[kani::proof] #[kani::unwind(10)] fn take_2_of_5() { take_case::<5, 2>() }
#[kani::proof] #[kani::unwind(10)] fn take_8_of_8() { take_case::<8, 8>() }
#[kani::proof] #[kani::unwind(10)] fn take_8_of_7() { take_case::<7, 8>() }
#[kani::proof] #[kani::unwind(10)] fn take_1_of_0() { take_case::<0, 1>() }

/// `map_chunks::<_, N>` under its callers' precondition len % N == 0 (the readers pass `N * count` bytes):
/// one output per chunk, chunk i = bytes [N*i, N*i + N).
#[kani::proof] #[kani::unwind(10)]
fn map_chunks_3() {
    let buf = any_bytes::<6>();
    let k: usize = kani::any();
    kani::assume(k <= 2);
    let v = map_chunks::<_, 3>(&buf[..3 * k], |c: [u8; 3]| c);
    assert!(v.len() == k, "C19.map_chunks: one element per chunk");
    if k >= 1 { assert!(v[0] == [buf[0], buf[1], buf[2]], "C19.map_chunks: first chunk"); }
    if k >= 2 { assert!(v[1] == [buf[3], buf[4], buf[5]], "C19.map_chunks: second chunk"); }
}
#[kani::proof] #[kani::unwind(10)]
fn map_chunks_2() {
    let buf = any_bytes::<6>();
    let k: usize = kani::any();
    kani::assume(k <= 3);
    let v = map_chunks::<_, 2>(&buf[..2 * k], u16::from_le_bytes);
    assert!(v.len() == k, "C19.map_chunks: one element per chunk");
    if k >= 1 { assert!(v[0] == (buf[0] as u16 | (buf[1] as u16) << 8), "C19.map_chunks: little-endian words"); }
    if k >= 3 { assert!(v[2] == (buf[4] as u16 | (buf[5] as u16) << 8), "C19.map_chunks: third chunk"); }
}
/// `assert_sorted_no_dup`: Some exactly for strictly increasing data (length <= 4); never panics.
#[kani::proof] #[kani::unwind(10)]
fn sorted_no_dup() {
    let d: [u16; 4] = kani::any();
    let n: usize = kani::any();
    kani::assume(n <= 4);
    let mut strictly = true;
    let mut i = 0;
    while i + 1 < 4 { if i + 1 < n && !(d[i] < d[i + 1]) { strictly = false; } i += 1; }
    kani::cover!(strictly && n == 4, "sorted data reachable");
    assert!(assert_sorted_no_dup(&d[..n]).is_some() == strictly, "C19.sorted: accepted exactly when strictly increasing");
}

/// `count_digits` (column widths of the text writer): total, = number of decimal digits (1 for 0).  Complete.
#[kani::proof]
fn count_digits_contract() {
    let n: usize = kani::any();
    let d = count_digits(n);           // must not panic for any n, 0 included
    assert!(d >= 1 && d <= 20, "C19.digits: between 1 and 20 digits");
    // d is the unique k with 10^(k-1) <= n < 10^k (n = 0 has one digit)
    let mut p: u128 = 1; let mut k = 1;
    while k < 20 { if k < d { p *= 10; } k += 1; }
    if n == 0 { assert!(d == 1, "C19.digits: zero has one digit"); }
    else { assert!(p <= n as u128 && (n as u128) < p * 10, "C19.digits: 10^(d-1) <= n < 10^d"); }
}
