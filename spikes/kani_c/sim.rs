
#[cfg(kani)]
mod verif_kani {
    use super::*;

    pub(crate) fn stub_random_state() -> std::hash::RandomState {
        unsafe { std::mem::transmute::<[u64; 2], std::hash::RandomState>([0, 0]) }
    }
    fn any_flags() -> SimFlags {
        SimFlags { strict: false, use_real_traps: kani::any(), machine_init: MachineInitStrategy::Known { value: 0 }, debug_frames: false, ignore_privilege: kani::any() }
    }
    fn any_sim(flags: SimFlags) -> Simulator {
        Simulator {
            mem: MemArray::verif_any(),
            reg_file: RegFile::verif_any(),
            pc: kani::any(),
            psr: PSR(kani::any()),
            saved_sp: kani::any(),
            frame_stack: FrameStack::verif_new(kani::any()),
            alloca: Box::new([]),
            instructions_run: kani::any(),
            prefetch: kani::any(),
            pause_condition: Default::default(),
            observer: Default::default(),
            os_loaded: true,
            mcr: Arc::default(),
            flags,
            breakpoints: Default::default(),
            ireg_mmap: HashMap::new(),
            device_handler: Default::default(),
        }
    }

    #[derive(Clone, Copy)]
    struct MemOp { write: bool, addr: u16, data: Word, privileged: bool, track: bool }
    static mut LOG: [Option<MemOp>; 8] = [None; 8];
    static mut LOG_N: usize = 0;
    fn log_push(op: MemOp) { unsafe { if LOG_N < 8 { LOG[LOG_N] = Some(op); } LOG_N += 1; } }
    fn stub_read_mem(_s: &mut Simulator, addr: u16, ctx: MemAccessCtx) -> Result<Word, SimErr> {
        if !ctx.privileged && !(addr >= 0x3000 && addr < 0xFE00) { return Err(SimErr::AccessViolation); }
        let w: Word = kani::any();
        log_push(MemOp { write: false, addr, data: w, privileged: ctx.privileged, track: ctx.track_access });
        Ok(w)
    }
    fn stub_write_mem(_s: &mut Simulator, addr: u16, data: Word, ctx: MemAccessCtx) -> Result<(), SimErr> {
        if !ctx.privileged && !(addr >= 0x3000 && addr < 0xFE00) { return Err(SimErr::AccessViolation); }
        if ctx.strict && !data.is_init() {
            return Err(if addr >= 0xFE00 { SimErr::StrictIOSetUninit } else { SimErr::StrictMemSetUninit });
        }
        log_push(MemOp { write: true, addr, data, privileged: ctx.privileged, track: ctx.track_access });
        Ok(())
    }
    fn stub_poll(_d: &mut DeviceHandler) -> Option<device::Interrupt> {
        if kani::any() { Some(device::Interrupt::vectored(kani::any(), kani::any())) } else { None }
    }

    // S1: public step_in, all opcodes, interrupts, real/virtual traps; generic sanity contract
    #[kani::proof]
    #[kani::stub(std::hash::RandomState::new, stub_random_state)]
    #[kani::stub(<DeviceHandler as ExternalDevice>::poll_interrupt, stub_poll)]
    #[kani::stub(Simulator::read_mem, stub_read_mem)]
    #[kani::stub(Simulator::write_mem, stub_write_mem)]
    #[kani::unwind(9)]
    fn s1_step_in_generic() {
        let flags = any_flags();
        let mut sim = any_sim(flags);
        kani::assume(sim.frame_stack.len() < u64::MAX);
        let user0 = !sim.psr.privileged() && !flags.ignore_privilege;
        let probe: u16 = kani::any();
        let m0 = sim.mem[probe];
        let r = sim.step_in();
        // C09 flavour: in user mode with no entry sequence, every access is unprivileged
        unsafe {
            let mut i = 0;
            while i < 8 {
                if i < LOG_N { let o = LOG[i].unwrap(); assert!(o.track); if user0 && !sim.psr.privileged() { assert!(!o.privileged); } }
                i += 1;
            }
            assert!(LOG_N <= 5);
        }
        assert!(sim.mem[probe] == m0);
        let _ = sim.prefetch_pc();
        let _ = r;
    }

    // S2: reset against a stubbed constructor
    static mut NEW_CALLS: u32 = 0;
    static mut NEW_FLAGS: Option<SimFlags> = None;
    static mut IO_RESETS: u32 = 0;
    fn stub_new_with_mcr(flags: SimFlags, mcr: MCR) -> Simulator {
        unsafe { NEW_CALLS += 1; NEW_FLAGS = Some(flags); }
        let mut s = any_sim(flags);
        s.mcr = mcr;
        s.pc = 0x1234; // marker
        s
    }
    fn stub_io_reset(_d: &mut DeviceHandler) { unsafe { IO_RESETS += 1; } }
    #[kani::proof]
    #[kani::stub(std::hash::RandomState::new, stub_random_state)]
    #[kani::stub(Simulator::new_with_mcr, stub_new_with_mcr)]
    #[kani::stub(<DeviceHandler as ExternalDevice>::io_reset, stub_io_reset)]
    #[kani::unwind(9)]
    fn s2_reset_modular() {
        let flags = SimFlags { strict: kani::any(), ..any_flags() };
        let mut sim = any_sim(flags);
        let mcr0 = Arc::clone(&sim.mcr);
        sim.reset();
        unsafe { assert!(NEW_CALLS == 1 && IO_RESETS == 1); assert!(NEW_FLAGS == Some(flags)); }
        assert!(sim.pc == 0x1234);
        assert!(Arc::ptr_eq(&sim.mcr, &mcr0));
        assert!(sim.flags == flags);
    }

    // S4: run_with_limit with step stubbed
    static mut STEPS: u64 = 0;
    fn stub_step(s: &mut Simulator) -> Result<(), StepBreak> {
        unsafe { STEPS += 1; }
        if kani::any() { s.instructions_run = s.instructions_run.wrapping_add(1); Ok(()) }
        else if kani::any() { Err(StepBreak::Halt) } else { Err(StepBreak::Err(SimErr::IllegalOpcode)) }
    }
    #[kani::proof]
    #[kani::stub(std::hash::RandomState::new, stub_random_state)]
    #[kani::stub(Simulator::step, stub_step)]
    #[kani::unwind(9)]
    fn s4_run_with_limit() {
        let mut sim = any_sim(any_flags());
        let n: u64 = kani::any();
        kani::assume(n <= 3);
        let i0 = sim.instructions_run;
        let r = sim.run_with_limit(n);
        unsafe { assert!(STEPS <= n); }
        if r.is_ok() && !sim.hit_halt() { assert!(sim.instructions_run.wrapping_sub(i0) == n); }
        assert!(!sim.mcr.load(std::sync::atomic::Ordering::Relaxed));
    }
}
