}
#[cfg(kani)]
mod verif_kani {
    use super::*;

    fn stub_random_state() -> std::hash::RandomState {
        unsafe { std::mem::transmute::<[u64; 2], std::hash::RandomState>([0, 0]) }
    }

    #[kani::proof]
    #[kani::stub(std::hash::RandomState::new, stub_random_state)]
    #[kani::unwind(12)]
    fn binary_roundtrip_one_reloc() {
        let mut block_map = BTreeMap::new();
        let a: u16 = kani::any();
        let w: Option<u16> = kani::any();
        block_map.insert(a, vec![w]);
        let mut label_map = HashMap::new();
        label_map.insert(String::from("X"), SymbolData { addr: 0, src_start: kani::any(), external: true });
        let mut rel_map = HashMap::new();
        let ra: u16 = kani::any();
        rel_map.insert(ra, String::from("X"));
        let o = ObjectFile { block_map, sym: Some(SymbolTable { label_map, rel_map, debug_symbols: None }) };
        let bytes = BinaryFormat::serialize(&o);
        let back = BinaryFormat::deserialize(&bytes);
        assert!(back.is_some());
        assert!(back.unwrap() == o);
    }
}
