}
#[cfg(kani)]
pub(crate) mod verif_kani {
    use super::*;
    impl FrameStack {
        pub(crate) fn verif_new(depth: u64) -> Self {
            FrameStack { frame_no: depth, trap_defns: HashMap::new(), sr_defns: HashMap::new(), frames: None }
        }
    }
}
