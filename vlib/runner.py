#!/usr/bin/env python3
"""Contract-verification runner for lc3-ensemble (see /verif/DESIGN.md sections 2-4).

Decides a property by discharging every obligation registered for it in
/verif/obligations.json with Kani/CBMC (harnesses overlaid on a scratch copy of
/repo's working tree) or Verus (functions extracted mechanically from /repo).

Exit codes: 0 held, 1 violation (prints `VIOLATION property=<id> replay=<path>`),
2 undecided (tool limit, lost anchor, compile error of the overlay, timeout, ...).
"""
import concurrent.futures as cf
import fcntl
import hashlib
import json
import os
import re
import shutil
import subprocess
import sys
import threading
import time

VERIF = os.path.dirname(os.path.dirname(os.path.abspath(__file__)))
REPO = os.environ.get("VERIF_REPO", "/repo")
SCRATCH_ROOT = os.environ.get("VERIF_SCRATCH", "/var/tmp/lc3v")
KANI_DIR = os.path.join(VERIF, "kani")
VERUS_DIR = os.path.join(VERIF, "verus")
# VERIF_OUT redirects everything a run writes (evidence, replays, cache): used when the checks are pointed at a
# scratch worktree (VERIF_REPO) to try a seeded change without touching /repo or the committed evidence.
OUT = os.environ.get("VERIF_OUT", VERIF)
EVID_DIR = os.path.join(OUT, "evidence")
REPLAY_DIR = os.path.join(OUT, "replays")
CACHE_DIR = os.path.join(OUT, ".cache")
MAX_RSS_GB_DEFAULT = 16
CACHE_EPOCH = "2026-09-22a"
NCPU = os.cpu_count() or 8

# source file (relative to /repo/src) -> harness module file in /verif/kani
OVERLAY = {
    "ast.rs": "ast.rs",
    "ast/sim.rs": "ast__sim.rs",
    "ast/asm.rs": "ast__asm.rs",
    "asm.rs": "asm.rs",
    "asm/encoding.rs": "asm__encoding.rs",
    "err.rs": "err.rs",
    "parse.rs": "parse.rs",
    "parse/lex.rs": "parse__lex.rs",
    "sim.rs": "sim.rs",
    "sim/mem.rs": "sim__mem.rs",
    "sim/frame.rs": "sim__frame.rs",
    "sim/device.rs": "sim__device.rs",
    "sim/device/timer.rs": "sim__device__timer.rs",
    "sim/device/keyboard.rs": "sim__device__keyboard.rs",
    "sim/device/display.rs": "sim__device__display.rs",
    "sim/debug.rs": "sim__debug.rs",
    "sim/observer.rs": "sim__observer.rs",
}
# additional harness modules for a source file that already has one: kani file -> (source file, module name)
EXTRA_OVERLAY = {"sim__new.rs": ("sim.rs", "verif_kani_new"), "sim__device__timer__seed.rs": ("sim/device/timer.rs", "verif_kani_seed"), "asm__obj.rs": ("asm.rs", "verif_kani_obj"), "sim__mem__z.rs": ("sim/mem.rs", "verif_kani_z"), 
    "sim__mem__copy.rs": ("sim/mem.rs", "verif_kani_copy"),
    "sim__device__poll.rs": ("sim/device.rs", "verif_kani_poll"),
    "sim__device__h.rs": ("sim/device.rs", "verif_kani_h"),
    "sim__frame__h.rs": ("sim/frame.rs", "verif_kani_h"),
    "sim__mem__h.rs": ("sim/mem.rs", "verif_kani_h"),
    "asm__encoding__deser.rs": ("asm/encoding.rs", "verif_kani_deser"),
    "sim__frame__sig.rs": ("sim/frame.rs", "verif_kani_sig"),
}
# harness files that are included as child modules of a generated module (see kani/<module>.extract.json): file -> owning module
CHILD_OF_GEN = {"asm__objblock.rs": "asm.rs"}
# harness module -> other harness modules whose helpers it uses
MODULE_NEEDS = {
    "sim.rs": ["sim__mem.rs", "sim__frame.rs", "sim__device.rs"],
    "sim__frame.rs": ["sim__mem.rs"],
    "sim__mem__copy.rs": ["sim__mem.rs"],
    "asm__objblock.rs": ["asm.rs"],
    "sim__new.rs": ["sim.rs", "sim__mem.rs", "sim__frame.rs", "sim__device.rs", "asm__obj.rs", "sim__mem__z.rs"],
    "sim__device__poll.rs": ["sim__device.rs"],
    "sim__device__h.rs": ["sim__device.rs"],
    "sim__frame__h.rs": ["sim__frame.rs", "sim__mem.rs"],
    "sim__frame__sig.rs": ["sim__frame.rs", "sim__mem.rs"],
    "sim__mem__h.rs": ["sim__mem.rs"],
    "sim__debug.rs": ["sim.rs", "sim__mem.rs", "sim__frame.rs", "sim__device.rs"],
    "asm.rs": [],
    "ast__asm.rs": ["asm.rs"],
}

TRUSTED_BASE = [
    "rustc (Kani's pinned nightly) and kani-compiler 0.68.0 MIR->goto translation",
    "CBMC 6.11.0 symbolic execution + CaDiCaL SAT solver",
    "Verus 0.2026.09.13 + Z3 (Verus units only), vstd specifications of core functions",
    "Rust std/core/alloc library code is verified through (not assumed) unless a stub is listed",
]


def _raise_stack():
    # CBMC recurses deeply on long unwound loops; a 8 MB stack makes it crash (status 139)
    import resource
    try:
        resource.setrlimit(resource.RLIMIT_STACK, (resource.RLIM_INFINITY, resource.RLIM_INFINITY))
    except Exception:
        pass


def log(*a):
    print(*a, file=sys.stderr, flush=True)


def sha256_files(paths):
    h = hashlib.sha256()
    for p in sorted(paths):
        h.update(p.encode())
        h.update(b"\0")
        try:
            with open(p, "rb") as f:
                h.update(f.read())
        except OSError:
            h.update(b"<missing>")
        h.update(b"\0")
    return h.hexdigest()


def walk(d, suffixes=None):
    out = []
    for root, dirs, files in os.walk(d):
        dirs[:] = [x for x in dirs if x not in ("target", ".git", "__pycache__")]
        for f in files:
            if suffixes is None or f.endswith(suffixes):
                out.append(os.path.join(root, f))
    return out


def repo_key():
    """Identifies the state of /repo's working tree (sources + manifests)."""
    paths = walk(os.path.join(REPO, "src"))
    paths += [os.path.join(REPO, "Cargo.toml"), os.path.join(REPO, "Cargo.lock")]
    return sha256_files(paths)


def tree_key():
    paths = walk(os.path.join(REPO, "src"))
    paths += [os.path.join(REPO, "Cargo.toml"), os.path.join(REPO, "Cargo.lock")]
    paths += walk(KANI_DIR) + walk(VERUS_DIR) + walk(os.path.join(VERIF, "vlib"), (".py",))
    paths += [os.path.join(VERIF, "obligations.json")]
    return sha256_files(paths)


def obligation_key(o, rkey):
    """Cache key of one obligation: the repository tree, the harness files this obligation is built from
    (its module and the modules that one uses / its Verus unit), the runner, and the obligation record."""
    if o["engine"] == "kani":
        files = [os.path.join(KANI_DIR, m) for m in modules_closure([o["module"]])]
        files += [f for f in (os.path.join(KANI_DIR, m[:-3] + ".extract.json") for m in modules_closure([o["module"]])) if os.path.exists(f)]
    else:
        files = [os.path.join(VERUS_DIR, f) for f in sorted(os.listdir(VERUS_DIR)) if f.startswith(o["unit"] + ".")]
    # (the runner itself is not part of the key: bump CACHE_EPOCH when a change to it affects what a result means)
    h = hashlib.sha256()
    h.update(CACHE_EPOCH.encode())
    core = {k: o.get(k) for k in ("engine", "module", "unit", "harness", "cbmc_args", "unwindset", "expect_verified", "timeout_s")}
    h.update(rkey.encode()); h.update(sha256_files(files).encode()); h.update(json.dumps(core, sort_keys=True).encode())
    return h.hexdigest()[:32]


def load_registry():
    with open(os.path.join(VERIF, "obligations.json")) as f:
        reg = json.load(f)
    return reg


def load_known():
    p = os.path.join(VERIF, "known_findings.json")
    if not os.path.exists(p):
        return []
    with open(p) as f:
        return json.load(f).get("findings", [])


# ---------------------------------------------------------------------------
# scratch copy + overlay


def modules_closure(mods):
    seen = []
    todo = list(mods)
    while todo:
        m = todo.pop()
        if m in seen:
            continue
        seen.append(m)
        todo.extend(MODULE_NEEDS.get(m, []))
    return sorted(seen)


class Scratch:
    """A scratch copy of /repo's working tree with harness modules appended (add-only)."""

    def __init__(self, key, modules):
        self.modules = modules_closure(modules)
        specs = [os.path.join(KANI_DIR, m[:-3] + ".extract.json") for m in self.modules]
        self.extract_specs = [p for p in specs if os.path.exists(p)]
        tag = hashlib.sha256((key + "|" + ",".join(self.modules) + "|" + sha256_files(self.extract_specs + [os.path.join(VERIF, "vlib", "extract.py")])).encode()).hexdigest()[:16]
        self.extracted = []
        self.root = os.path.join(SCRATCH_ROOT, "k" + tag)
        self.src = os.path.join(self.root, "repo")
        self.key = key

    def prepare(self):
        os.makedirs(SCRATCH_ROOT, exist_ok=True)
        # garbage-collect scratch directories of other tree states (disk is limited)
        for d in os.listdir(SCRATCH_ROOT):
            p = os.path.join(SCRATCH_ROOT, d)
            if d.startswith("k") and p != self.root and os.path.isdir(p):
                stamp = os.path.join(p, "key")
                try:
                    other = open(stamp).read().strip()
                except OSError:
                    other = None
                if other != self.key:
                    lockp = os.path.join(p, "lock")
                    try:
                        with open(lockp, "w") as lf:
                            fcntl.flock(lf, fcntl.LOCK_EX | fcntl.LOCK_NB)
                            shutil.rmtree(p, ignore_errors=True)
                    except OSError:
                        pass
        os.makedirs(self.root, exist_ok=True)
        self.lockf = open(os.path.join(self.root, "lock"), "w")
        fcntl.flock(self.lockf, fcntl.LOCK_EX)
        stamp = os.path.join(self.root, "key")
        if os.path.exists(stamp) and open(stamp).read().strip() == self.key and os.path.isdir(self.src):
            return
        if os.path.isdir(self.src):
            shutil.rmtree(self.src)
        os.makedirs(self.src)
        subprocess.run(["rsync", "-a", "--exclude", "target", "--exclude", ".git", REPO + "/", self.src + "/"], check=True)
        os.makedirs(os.path.join(self.src, ".cargo"), exist_ok=True)
        with open(os.path.join(self.src, ".cargo", "config.toml"), "w") as f:
            f.write("[net]\noffline = true\n")
        inv = {v: k for k, v in OVERLAY.items()}
        for m in self.modules:
            if m in CHILD_OF_GEN:
                continue  # pulled in by the generated module of its owner
            srcrel, modname = EXTRA_OVERLAY[m] if m in EXTRA_OVERLAY else (inv[m], "verif_kani")
            p = os.path.join(self.src, "src", srcrel)
            if not os.path.exists(p):
                raise Undecided(f"lost anchor: source file src/{srcrel} does not exist in the tree")
            gen_line = ""
            spec_path = os.path.join(KANI_DIR, m[:-3] + ".extract.json")
            if os.path.exists(spec_path):
                # functions nested inside other functions cannot be named from a harness: their text is copied verbatim
                # from this tree into a generated sibling module (only `pub(crate)` is prepended to the signature)
                sys.path.insert(0, os.path.join(VERIF, "vlib"))
                import extract
                try:
                    text, meta = extract.build_kani_gen(json.load(open(spec_path)), self.src)
                except extract.ExtractError as e:
                    raise Undecided("extraction: " + str(e))
                gen_path = os.path.join(self.root, "gen_" + m)
                with open(gen_path, "w") as gf:
                    gf.write(text)
                with open(os.path.join(self.root, "gen_" + m + ".meta.json"), "w") as gf:
                    json.dump(meta, gf)
                gen_line = '#[cfg(kani)] #[path = "%s"] pub(crate) mod verif_kani_gen;\n' % gen_path
            with open(p, "a") as f:
                f.write('\n' + gen_line + '#[cfg(kani)] #[path = "%s"] pub(crate) mod %s;\n' % (os.path.join(KANI_DIR, m), modname))
        with open(stamp, "w") as f:
            f.write(self.key)

    def extraction_meta(self):
        out = []
        for m in self.modules:
            mp = os.path.join(self.root, "gen_" + m + ".meta.json")
            if os.path.exists(mp):
                try:
                    out.append(json.load(open(mp)))
                except Exception:
                    pass
        return out

    def release(self):
        try:
            fcntl.flock(self.lockf, fcntl.LOCK_UN)
            self.lockf.close()
        except Exception:
            pass


class Undecided(Exception):
    pass


# ---------------------------------------------------------------------------
# Kani engine

REFUTING_CATEGORIES = {
    "assertion", "arithmetic_overflow", "bounds", "pointer_dereference", "division_by_zero", "overflow",
    "pointer", "pointer_arithmetic", "pointer_primitives", "array_bounds", "bit_count", "enum_range",
    "memory_leak", "float_overflow", "NaN", "safety_check", "precondition_instance",
}
UNDECIDED_CATEGORIES = {"unwind", "unsupported_construct", "missing_definition", "unwinding", "internal"}


def default_jobs():
    """Parallel CBMC processes: up to 10, at most one per 5 GB of memory currently available (L2 obligations need 3-5 GB)."""
    try:
        for line in open("/proc/meminfo"):
            if line.startswith("MemAvailable:"):
                gb = int(line.split()[1]) // (1024 * 1024)
                return max(2, min(10, NCPU - 2, gb // 5))
    except Exception:
        pass
    return 6


def rss_watchdog(stop, limit_gb, killed):
    """Kill any cbmc process whose RSS exceeds the limit (reported as undecided, never as an alarm)."""
    limit_kb = limit_gb * 1024 * 1024
    while not stop.wait(2.0):
        try:
            out = subprocess.run(["ps", "-eo", "pid,rss,comm"], capture_output=True, text=True).stdout
        except Exception:
            continue
        for line in out.splitlines()[1:]:
            parts = line.split(None, 2)
            if len(parts) == 3 and parts[2].strip() in ("cbmc", "goto-instrument", "goto-cc"):
                try:
                    if int(parts[1]) > limit_kb:
                        os.kill(int(parts[0]), 9)
                        killed.append(int(parts[0]))
                except Exception:
                    pass


def discover_unwindset(scratch, o, tdir):
    """Library loops whose real trip count is tiny but not syntactically evident (hashbrown probing) get an
    individual bound (unwinding assertions stay on).  Loop identifiers are mangled names of the pinned
    std/hashbrown, so they are read from CBMC's own loop listing instead of being hard-coded."""
    cmd = ["cargo", "kani", "-Z", "stubbing", "-Z", "unstable-options", "--target-dir", tdir, "--output-format", "old",
           "--harness", o["harness"], "--exact", "--cbmc-args", "--show-loops"]
    env = dict(os.environ, CARGO_NET_OFFLINE="true")
    try:
        p = subprocess.run(cmd, cwd=scratch.src, env=env, capture_output=True, text=True, timeout=900)
    except subprocess.TimeoutExpired:
        return None
    loops = re.findall(r"^Loop (\S+):$", p.stdout + p.stderr, re.M)
    sel = []
    for rx, n in o["unwindset"].items():
        hits = [l for l in loops if re.search(rx, l)]
        if not hits:
            return None
        sel += [f"{l}:{n}" for l in hits]
    return ",".join(sorted(set(sel)))


def run_kani_group(scratch, gid, obls, tier_timeout):  # tier_timeout: number of parallel CBMC jobs for this group (None = default)
    """One `cargo kani` invocation for obligations that share CBMC arguments. Returns {obl_id: result}."""
    cbmc_args = list(obls[0].get("cbmc_args", []))
    tdir = os.path.join(scratch.root, "target-" + gid)
    if obls[0].get("unwindset"):
        assert len(obls) == 1
        us = discover_unwindset(scratch, obls[0], tdir)
        if us is None:
            return {obls[0]["id"]: {"status": "undecided", "reason": "lost anchor: library loops named by the unwindset patterns not found"}}
        cbmc_args += ["--unwindset", us]
    out_json = os.path.join(scratch.root, f"out-{gid}.json")
    out_log = os.path.join(scratch.root, f"out-{gid}.log")
    if os.path.exists(out_json):
        os.remove(out_json)
    timeout_s = max(o.get("timeout_s", 600) for o in obls)
    jobs = tier_timeout or max(1, min(len(obls), int(os.environ.get("VERIF_JOBS", "10"))))
    cmd = ["cargo", "kani", "-Z", "stubbing", "-Z", "unstable-options", "--target-dir", tdir,
           "--output-format", "terse", "--export-json", out_json, "--harness-timeout", f"{timeout_s}s",
           "-j", str(jobs), "--exact"]
    for o in obls:
        cmd += ["--harness", o["harness"]]
    if cbmc_args:
        cmd += ["--cbmc-args"] + cbmc_args
    env = dict(os.environ, CARGO_NET_OFFLINE="true")
    t0 = time.time()
    with open(out_log, "w") as lf:
        lf.write("$ " + " ".join(cmd) + "\n")
        lf.flush()
        try:
            p = subprocess.run(cmd, cwd=scratch.src, env=env, stdout=lf, stderr=subprocess.STDOUT,
                               timeout=timeout_s * 2 + 900, preexec_fn=_raise_stack)
            rc = p.returncode
        except subprocess.TimeoutExpired:
            rc = -9
    wall = time.time() - t0
    text = open(out_log, errors="replace").read()
    results = {}
    data = None
    if os.path.exists(out_json):
        try:
            data = json.load(open(out_json))
        except Exception:
            data = None
    if data is None:
        reason = "kani produced no result file"
        m = re.search(r"^error(\[E\d+\])?: .*$", text, re.M)
        if m:
            reason = "overlay does not compile against this tree: " + m.group(0)[:300]
        for o in obls:
            results[o["id"]] = {"status": "undecided", "reason": reason, "wall_s": wall, "log_tail": text[-3000:]}
        return results
    by_h = {r["harness_id"]: r for r in data.get("verification_results", {}).get("results", [])}
    stats = {c["harness_id"]: c for c in data.get("cbmc", [])}
    props = {c["harness_id"]: c.get("property_details", {}) for c in data.get("property_details", [])}
    errs = {c["harness_id"]: c for c in data.get("error_details", [])}
    for o in obls:
        h = o["harness"]
        r = by_h.get(h)
        if r is None:
            results[o["id"]] = {"status": "undecided", "reason": "harness not found in kani output (lost anchor or renamed item)",
                                "wall_s": wall, "log_tail": text[-2000:]}
            continue
        res = classify_kani(o, r, props.get(h, {}), errs.get(h, {}))
        st = (stats.get(h) or {}).get("cbmc_stats") or {}
        res["solver_s"] = round((st.get("runtime_solver_s") or 0.0) + (st.get("runtime_symex_s") or 0.0), 3)
        res["sat_s"] = round(st.get("runtime_solver_s") or 0.0, 3)
        res["wall_s"] = round(r.get("duration_ms", 0) / 1000.0, 2)
        res["backend"] = "kani 0.68.0 / cbmc 6.11.0 / " + ((stats.get(h) or {}).get("configuration") or {}).get("solver", "cadical")
        res["n_checks"] = len(r.get("checks", []))
        results[o["id"]] = res
    return results


def classify_kani(o, r, pd, err):
    checks = r.get("checks", [])
    failed = [c for c in checks if c.get("status") in ("Failure", "FAILURE")]
    undet = [c for c in checks if c.get("status") in ("Undetermined", "UNDETERMINED")]
    covers = [c for c in checks if c.get("category") == "cover"]
    unsat_cov = [c for c in covers if c.get("status") not in ("Satisfied", "SATISFIED")]
    refuting, soft = [], []
    for c in failed:
        cat = c.get("category", "")
        desc = c.get("description", "")
        if "unwinding assertion" in desc or cat in UNDECIDED_CATEGORIES:
            soft.append(c)
        elif cat in REFUTING_CATEGORIES or cat not in UNDECIDED_CATEGORIES:
            refuting.append(c)
    def slim(c):
        loc = c.get("location", {}) or {}
        return {"function": c.get("function"), "description": c.get("description"), "category": c.get("category"),
                "file": loc.get("file"), "line": loc.get("line")}
    if refuting:
        return {"status": "refuted", "failed_checks": [slim(c) for c in refuting],
                "reason": "; ".join(sorted({(c.get("description") or "") for c in refuting}))[:600]}
    status = r.get("status")
    if soft:
        return {"status": "undecided", "reason": "unwinding/unsupported: " + "; ".join(sorted({c.get("description", "") for c in soft}))[:400]}
    if status != "Success":
        return {"status": "undecided", "reason": f"kani status {status}; {err.get('error_type','')} {err.get('exit_status','')}".strip()}
    if undet:
        return {"status": "undecided", "reason": "undetermined checks: " + str(len(undet))}
    if unsat_cov:
        return {"status": "undecided", "reason": "vacuity guard: cover not satisfiable: " +
                "; ".join(c.get("description", "") for c in unsat_cov)[:400]}
    if not checks:
        return {"status": "undecided", "reason": "vacuity guard: zero checks generated"}
    return {"status": "discharged", "covers": len(covers)}


def kani_playback(scratch, o, native):
    """Counterexample for a refuted obligation: concrete values from Kani, optionally replayed natively
    (the harness body executed on the real code with those values through `cargo kani playback`)."""
    tdir = os.path.join(scratch.root, "target-pb")
    cmd = ["cargo", "kani", "-Z", "stubbing", "-Z", "unstable-options", "-Z", "concrete-playback",
           "--concrete-playback=print", "--target-dir", tdir, "--output-format", "terse",
           "--harness", o["harness"], "--exact", "--harness-timeout", f"{o.get('timeout_s', 600)}s"]
    if o.get("cbmc_args"):
        cmd += ["--cbmc-args"] + o["cbmc_args"]
    env = dict(os.environ, CARGO_NET_OFFLINE="true")
    try:
        p = subprocess.run(cmd, cwd=scratch.src, env=env, capture_output=True, text=True, timeout=o.get("timeout_s", 600) * 2 + 600)
        out = p.stdout + p.stderr
    except subprocess.TimeoutExpired:
        return {"values": None, "verifier_output": "playback timed out", "native": None}
    tests = re.findall(r"```\n(.*?)```", out, re.S)
    # Kani also emits witnesses for satisfied cover properties; keep only the tests for failed checks
    tests = [t for t in tests if "Check for `cover`" not in t]
    res = {"values": None, "verifier_output": out[-6000:], "native": None, "tests": tests}
    if not tests:
        return res
    vals = []
    for t in tests:
        vv = re.findall(r"^\s*// (.*)\n\s*vec!\[([^\]]*)\]", t, re.M)
        vals.append([{"value": a.strip(), "bytes": [int(x) for x in b.replace(" ", "").split(",") if x]} for a, b in vv])
    res["values"] = vals
    if not native:
        return res
    # native replay: append the generated unit test to a copy of the harness module and run it on the real code
    modfile = None
    inv = {v: k for k, v in OVERLAY.items()}
    modpath = o["harness"].rsplit("::", 2)[0]  # e.g. ast::sim
    for m, srcrel in inv.items():
        if srcrel[:-3].replace("/", "::") == modpath and o.get("module", m) == m:
            modfile = m
    srcfile = None
    if o.get("module") in CHILD_OF_GEN:  # harness file included from the generated module of its owner
        modfile = o["module"]
        srcfile = os.path.join(scratch.root, "gen_" + CHILD_OF_GEN[modfile])
    if modfile is None:
        return res
    pbcopy = os.path.join(scratch.root, "pb_" + modfile)
    with open(os.path.join(KANI_DIR, modfile)) as f:
        body = f.read()
    test = tests[0]
    names = re.findall(r"fn (kani_concrete_playback_\w+)", test)
    with open(pbcopy, "w") as f:
        f.write(body + "\n" + test + "\n")
    if srcfile is None:
        srcfile = os.path.join(scratch.src, "src", inv[modfile])
    orig = open(srcfile).read()
    try:
        with open(srcfile, "w") as f:
            f.write(orig.replace(os.path.join(KANI_DIR, modfile), pbcopy))
        cmd = ["cargo", "kani", "playback", "-Z", "concrete-playback", "--", names[0]]
        # --cfg verif_native switches the modular (stubbed) obligations into their native-replay mode: stubs are not
        # applied by `cargo kani playback`, so those harnesses install the counterexample's memory function into a real
        # machine and let the real accessors run (never compiled into a CBMC run)
        p = subprocess.run(cmd, cwd=scratch.src, env=dict(env, CARGO_TARGET_DIR=tdir + "-native", RUSTFLAGS="--cfg verif_native"),
                           capture_output=True, text=True, timeout=1800)
        out2 = p.stdout + p.stderr
        m = re.search(r"panicked at ([^\n]*)\n([^\n]*)", out2)
        res["native"] = {"cmd": " ".join(cmd), "reproduced": ("test result: FAILED" in out2),
                         "panic": (m.group(1) + " | " + m.group(2)) if m else None, "output_tail": out2[-2500:]}
    finally:
        with open(srcfile, "w") as f:
            f.write(orig)
    return res


# ---------------------------------------------------------------------------
# Verus engine (functions extracted mechanically from /repo on every run)


def run_verus(o, workdir):
    sys.path.insert(0, os.path.join(VERIF, "vlib"))
    import extract
    t0 = time.time()
    try:
        text, meta = extract.build_unit(o["unit"], REPO, VERUS_DIR)
    except extract.ExtractError as e:
        return {"status": "undecided", "reason": "extraction: " + str(e), "wall_s": 0.0}
    os.makedirs(workdir, exist_ok=True)
    path = os.path.join(workdir, o["unit"] + ".rs")
    with open(path, "w") as f:
        f.write(text)
    cmd = ["verus", path, "--output-json", "--time"]
    try:
        p = subprocess.run(cmd, capture_output=True, text=True, timeout=o.get("timeout_s", 300), cwd=workdir)
    except subprocess.TimeoutExpired:
        return {"status": "undecided", "reason": "verus timeout", "wall_s": time.time() - t0}
    wall = time.time() - t0
    out = p.stdout
    try:
        j = json.loads(out[out.index("{"):])
    except Exception:
        return {"status": "undecided", "reason": "verus output not parsable: " + (p.stderr or out)[-800:], "wall_s": wall}
    vr = j.get("verification-results", {})
    res = {"wall_s": round(wall, 2), "backend": "verus 0.2026.09.13 / z3", "extract": meta,
           "verified": vr.get("verified"), "errors": vr.get("errors"),
           "solver_s": round(j.get("times-ms", {}).get("smt", {}).get("total", 0) / 1000.0, 3) if isinstance(j.get("times-ms", {}).get("smt"), dict) else None}
    stderr = p.stderr or ""
    if vr.get("encountered-vir-error") or "error[E" in stderr and vr.get("verified") is None:
        res.update(status="undecided", reason="verus rejected the extracted text (unsupported construct or type error): " + stderr[-1500:])
        return res
    if vr.get("errors", 1) == 0 and vr.get("success", False):
        exp = o.get("expect_verified")
        if exp is not None and vr.get("verified") != exp:
            res.update(status="undecided", reason=f"vacuity guard: verified {vr.get('verified')} functions, expected {exp}")
        else:
            res.update(status="discharged")
        return res
    # classify: rlimit / timeouts are undecided, failed postconditions/assertions are refutations
    if re.search(r"resource limit|rlimit|timed out|could not be proved due to", stderr, re.I) and not re.search(r"postcondition not satisfied|assertion failed|precondition not satisfied|invariant not satisfied", stderr):
        res.update(status="undecided", reason="verus resource limit: " + stderr[-800:])
        return res
    msgs = re.findall(r"error: ([^\n]*)\n\s*--> [^\n]*\n(?:[^\n]*\n){0,6}", stderr)
    fails = []
    for m in re.finditer(r"error: ([^\n]*)\n\s*--> ([^\n:]*):(\d+):\d+\n((?:[^\n]*\n){0,8})", stderr):
        fails.append({"description": m.group(1), "file": m.group(2), "line": m.group(3), "context": m.group(4)[-600:],
                      "function": None, "category": "verus"})
    res.update(status="refuted", failed_checks=fails or [{"description": "verus verification failed", "category": "verus", "function": None}],
               reason="; ".join(sorted(set(msgs)))[:600] or "verus errors", verifier_output=stderr[-5000:])
    return res


# ---------------------------------------------------------------------------
# assumption scan

ASSUME_PAT = re.compile(r"kani::assume|kani::stub|\bassume\(|\badmit\(|external_body|assume_specification|\baxiom\b|\bunsafe\b")


def assumption_scan(files):
    found = []
    for p in files:
        try:
            lines = open(p).read().splitlines()
        except OSError:
            continue
        for i, l in enumerate(lines, 1):
            s = l.strip()
            if s.startswith("//"):
                continue
            m = ASSUME_PAT.search(l)
            if m:
                found.append(f"{os.path.relpath(p, VERIF)}:{i}: {s[:140]}")
    return found


# ---------------------------------------------------------------------------
# main driver


def match_known(known, prop, oid, fc):
    for k in known:
        if k.get("status") != "open":
            continue
        if k.get("property") != prop or k.get("obligation") != oid:
            continue
        want = k.get("failing_check", {})
        ok = True
        for fld in ("description", "function", "file"):
            if fld in want and want[fld] is not None:
                if (want[fld] not in (fc.get(fld) or "")):
                    ok = False
        if ok:
            return k
    return None


def run_property(prop, tier, seed):
    t_start = time.time()
    reg = load_registry()
    pinfo = reg["properties"].get(prop)
    if pinfo is None:
        log(f"property {prop} is not claimed (see MANIFEST.not_applicable)")
        return 2
    obls = [o for o in reg["obligations"] if prop in o["properties"] and (tier == "thorough" or o.get("tier", "quick") == "quick")]
    if os.environ.get("VERIF_ONLY"):  # developer aid: restrict to obligations whose id matches (never used by registered commands)
        obls = [o for o in obls if re.search(os.environ["VERIF_ONLY"], o["id"])]
    canaries = [o for o in reg["obligations"] if o.get("canary")]
    engines = {o["engine"] for o in obls}
    canaries = [c for c in canaries if c["engine"] in engines]
    key = repo_key()
    cache = CACHE_DIR
    os.makedirs(cache, exist_ok=True)
    okey = {o["id"]: obligation_key(o, key) for o in obls + canaries}
    results = {}
    todo = []
    for o in obls + canaries:
        cp = os.path.join(cache, okey[o["id"]] + ".json")
        if os.path.exists(cp) and not os.environ.get("VERIF_NOCACHE"):
            try:
                results[o["id"]] = json.load(open(cp))
                results[o["id"]]["cached"] = True
                continue
            except Exception:
                pass
        todo.append(o)
    scratch = None
    fatal = None
    kani_todo = [o for o in todo if o["engine"] == "kani"]
    verus_todo = [o for o in todo if o["engine"] == "verus"]
    stop = threading.Event()
    killed = []
    wd = threading.Thread(target=rss_watchdog, args=(stop, int(os.environ.get("VERIF_MAX_RSS_GB", MAX_RSS_GB_DEFAULT)), killed), daemon=True)
    wd.start()
    try:
        if kani_todo or any(o["engine"] == "kani" for o in obls):
            mods = sorted({o["module"] for o in obls + canaries if o["engine"] == "kani"})
            scratch = Scratch(key, mods)
            try:
                scratch.prepare()
            except Undecided as e:
                fatal = str(e)
        if kani_todo and not fatal:
            groups = {}
            for o in kani_todo:
                # one `cargo kani` invocation (one build of the crate) per distinct CBMC argument list
                gid = hashlib.sha256((" ".join(o.get("cbmc_args", [])) + "|" + (o["id"] if o.get("unwindset") else "")).encode()).hexdigest()[:8]
                groups.setdefault(gid, []).append(o)
            total_jobs = int(os.environ.get("VERIF_JOBS", "0")) or default_jobs()
            n_all = sum(len(g) for g in groups.values())
            with cf.ThreadPoolExecutor(max_workers=max(1, len(groups))) as ex:
                futs = {ex.submit(run_kani_group, scratch, gid, g, max(1, min(len(g), (total_jobs * len(g) + n_all - 1) // n_all))): gid for gid, g in groups.items()}
                for f in cf.as_completed(futs):
                    results.update(f.result())
        if verus_todo:
            wdir = os.path.join(SCRATCH_ROOT, "verus-" + key[:16])
            with cf.ThreadPoolExecutor(max_workers=4) as ex:
                futs = {ex.submit(run_verus, o, wdir): o for o in verus_todo}
                for f in cf.as_completed(futs):
                    results[futs[f]["id"]] = f.result()
            shutil.rmtree(wdir, ignore_errors=True)
        if fatal:
            for o in todo:
                results.setdefault(o["id"], {"status": "undecided", "reason": fatal})
        if killed:
            for o in todo:
                r = results.get(o["id"], {})
                if r.get("status") == "undecided":
                    r["reason"] = (r.get("reason", "") + " (a cbmc process was killed by the RSS watchdog)").strip()
        for o in todo:
            r = results[o["id"]]
            if r.get("status") in ("discharged", "refuted"):
                with open(os.path.join(cache, okey[o["id"]] + ".json"), "w") as f:
                    json.dump(r, f)

        # ---- verdict
        known = load_known()
        violations, known_hits, undecided = [], [], []
        for c in canaries:
            r = results[c["id"]]
            if r.get("status") != "refuted":
                undecided.append((c, {"reason": f"canary {c['id']} was not refuted ({r.get('status')}: {r.get('reason','')}): the back end cannot be trusted on this run"}))
        for o in obls:
            r = results[o["id"]]
            st = r.get("status")
            if st == "discharged":
                continue
            if st == "refuted":
                new = []
                for fc in r.get("failed_checks", []):
                    k = match_known(known, prop, o["id"], fc)
                    if k:
                        known_hits.append((o, fc, k))
                    else:
                        new.append(fc)
                if new and o["engine"] == "verus" and o.get("native_search") and not os.environ.get("VERIF_NO_NATIVE_SEARCH"):
                    # Verus is incomplete: a body that was refactored into constructs it cannot reason about (closures,
                    # combinators without a specification) fails its postcondition although the behaviour is unchanged.
                    # A failed proof is "undecided" unless the real code can be made to disagree with the contract:
                    # drive the tree under verification through its public API over the contract's boundary inputs.
                    sys.path.insert(0, os.path.join(VERIF, "vlib"))
                    import native_search
                    ns = native_search.run(o["native_search"], REPO, seed)
                    r["native_search"] = ns
                    if not ns.get("found") and ns.get("checked"):
                        r2 = dict(r, status="undecided", reason="Verus could not re-prove the contract for the current body (%s) and the native search over %d inputs of the real code found no disagreement with the contract: proof failure, not a refutation" % (r.get("reason", "")[:200], ns["checked"]))
                        undecided.append((o, r2))
                        continue
                if new:
                    violations.append((o, new, r))
                continue
            if o.get("exploratory"):
                continue
            undecided.append((o, r))

        # ---- replay files for violations
        os.makedirs(REPLAY_DIR, exist_ok=True)
        viol_lines = []
        for o, new, r in violations:
            rp = os.path.join(REPLAY_DIR, f"{prop}-{o['id']}.json")
            replay = {"property": prop, "obligation": o["id"], "engine": o["engine"], "harness": o.get("harness") or o.get("unit"),
                      "functions": o.get("functions"), "failed_checks": new, "tree_key": key, "tier": tier}
            found_input = False
            if o["engine"] == "kani" and scratch is not None and not os.environ.get("VERIF_NO_PLAYBACK"):
                pb = kani_playback(scratch, o, native=o.get("replay") == "native")
                replay["counterexample"] = pb.get("values")
                replay["playback_tests"] = pb.get("tests")
                replay["native_replay"] = pb.get("native")
                replay["verifier_output"] = pb.get("verifier_output")
                if pb.get("native") and pb["native"].get("reproduced"):
                    found_input = True
                    replay["replay_status"] = "counterexample replayed natively on the real code: assertion fails"
                elif pb.get("values"):
                    replay["replay_status"] = ("counterexample values from the verifier recorded; native replay "
                                               + ("did not reproduce" if pb.get("native") else "not available for this modular (stubbed) obligation"))
                else:
                    replay["replay_status"] = "verifier gave no counterexample values"
                # modular (stubbed) obligations whose counterexample cannot be replayed natively: look for a failing input
                # through the public entry points instead (only ever runs after a violation)
                if not found_input and o.get("native_search") and not os.environ.get("VERIF_NO_NATIVE_SEARCH"):
                    try:
                        import native_search
                        ns = native_search.run(o["native_search"], REPO, seed)
                    except Exception as e:  # a search that cannot run changes nothing
                        ns = {"found": False, "note": "native search did not run: " + str(e)[:300]}
                    replay["native_search"] = ns
                    if ns.get("found"):
                        found_input = True
                        replay["replay_status"] = "failing input found by native search through the public entry points (the verifier's counterexample is for a stubbed obligation)"
            else:
                replay["verifier_output"] = r.get("verifier_output") or r.get("reason")
                replay["replay_status"] = "verifier gives no counterexample"
                if o["engine"] == "verus" and o.get("native_search"):
                    ns = r.get("native_search") or {}
                    replay["native_search"] = ns
                    if ns.get("found"):
                        found_input = True
                        replay["replay_status"] = "failing input found by native search through the public entry point"
            replay["no_failing_input_found"] = not found_input
            with open(rp, "w") as f:
                json.dump(replay, f, indent=1)
            viol_lines.append(f"VIOLATION property={prop} replay={rp}" + ("" if found_input else " no-failing-input-found"))

        # ---- evidence
        write_evidence(prop, pinfo, tier, seed, obls, canaries, results, violations, known_hits, undecided, key, time.time() - t_start,
                       scratch.extraction_meta() if scratch is not None else [])

        for o, fc, k in known_hits:
            print(f"KNOWN-FINDING: property={prop} {k.get('what','')} [obligation {o['id']}: {fc.get('description')}]")
        for o, r in undecided:
            log(f"UNDECIDED obligation={o['id']}: {r.get('reason','')}")
        for l in viol_lines:
            print(l)
        n_d = sum(1 for o in obls if results[o['id']].get('status') == 'discharged')
        log(f"{prop} [{tier}]: {n_d}/{len(obls)} obligations discharged, {len(violations)} violated, {len(undecided)} undecided, "
            f"{len(known_hits)} known findings, {time.time()-t_start:.1f}s")
        if viol_lines:
            return 1
        if undecided:
            return 2
        return 0
    finally:
        stop.set()
        if scratch is not None:
            scratch.release()


def write_evidence(prop, pinfo, tier, seed, obls, canaries, results, violations, known_hits, undecided, key, wall, kani_extractions=()):
    os.makedirs(EVID_DIR, exist_ok=True)
    level = pinfo.get("level", "proof")
    samples, bounded, complete = [], [], []
    funcs = set()
    stubs = set()
    assumptions = set(pinfo.get("assumptions", []))
    solver_total = 0.0
    for o in obls:
        r = results[o["id"]]
        rec = {"id": o["id"], "engine": o["engine"], "harness": o.get("harness") or o.get("unit"),
               "functions": o.get("functions", []), "kind": o.get("kind", "complete"), "bound": o.get("bound"),
               "status": r.get("status"), "backend": r.get("backend"), "solver_s": r.get("solver_s"),
               "wall_s": r.get("wall_s"), "checks": r.get("n_checks"), "covers": r.get("covers"),
               "stubs": o.get("stubs", []), "reason": r.get("reason"), "cached": r.get("cached", False)}
        if r.get("extract"):
            rec["extract"] = r["extract"]
        samples.append(rec)
        (bounded if o.get("kind", "complete") == "bounded" else complete).append(rec)
        funcs.update(o.get("functions", []))
        stubs.update(o.get("stubs", []))
        assumptions.update(o.get("assumptions", []))
        solver_total += r.get("solver_s") or 0.0
    files = set()
    for o in obls:
        if o["engine"] == "kani":
            files.add(os.path.join(KANI_DIR, o["module"]))
            for m in modules_closure([o["module"]]):
                files.add(os.path.join(KANI_DIR, m))
        else:
            for f in os.listdir(VERUS_DIR):
                if f.startswith(o["unit"] + "."):
                    files.add(os.path.join(VERUS_DIR, f))
    scan = assumption_scan(sorted(files))
    cov = {
        "obligations": len(complete) if level == "proof" else len(obls),
        "discharged": sum(1 for r in (complete if level == "proof" else samples) if r["status"] == "discharged"),
        "checker_cmd": f"./check {prop} --tier {tier}",
        "trusted_base": TRUSTED_BASE,
        "samples": samples,
        "bounded": [{"id": r["id"], "bound": r["bound"], "status": r["status"]} for r in bounded],
        "undecided": [{"id": o["id"], "reason": r.get("reason")} for o, r in undecided],
        "functions_under_contract": sorted(funcs),
        "callee_contracts_used_as_stubs": sorted(stubs),
        "solver_s_total": round(solver_total, 2),
        "canaries": [{"id": c["id"], "status": results[c["id"]].get("status")} for c in canaries],
        "known_findings_reported": [{"obligation": o["id"], "check": fc.get("description")} for o, fc, k in known_hits],
        "tree_key": key,
        "explanation": pinfo.get("explanation", ""),
        "assumption_scan": scan,
        "kani_extractions": list(kani_extractions),
    }
    ev = {"property_id": prop, "tier": tier, "seed": seed, "level": level, "coverage": cov,
          "assumptions": sorted(assumptions), "wall_s": round(wall, 2), "violations": len(violations)}
    with open(os.path.join(EVID_DIR, prop + ".json"), "w") as f:
        json.dump(ev, f, indent=1)


def main(argv):
    import argparse
    ap = argparse.ArgumentParser()
    ap.add_argument("property")
    ap.add_argument("--tier", default=os.environ.get("VERIF_TIER", "quick"), choices=["quick", "thorough"])
    ap.add_argument("--replay", default=None)
    a = ap.parse_args(argv)
    seed = int(os.environ.get("VERIF_SEED", "0") or 0)
    if a.replay:
        sys.path.insert(0, os.path.join(VERIF, "vlib"))
        print(open(a.replay).read())
        return 0
    return run_property(a.property, a.tier, seed)


if __name__ == "__main__":
    sys.exit(main(sys.argv[1:]))
