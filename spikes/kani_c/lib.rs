pub mod err;
