}
#[cfg(kani)]
mod verif_kani {
    use super::*;

    pub(crate) fn stub_random_state() -> std::hash::RandomState {
        unsafe { std::mem::transmute::<[u64; 2], std::hash::RandomState>([0, 0]) }
    }

    // C25: SourceInfo index arithmetic on a directly built table
    #[kani::proof]
    #[kani::unwind(8)]
    fn source_info_pos_pair() {
        let len: usize = kani::any();
        kani::assume(len <= 6);
        let n: usize = kani::any();
        kani::assume(n <= 2);
        let a: usize = kani::any(); let b: usize = kani::any();
        kani::assume(a < b && b < len);
        let mut nl = Vec::new();
        if n >= 1 { nl.push(a); }
        if n >= 2 { nl.push(b); }
        nl.push(len);
        let mut src = String::new();
        let mut i = 0; while i < 6 { if i < len { src.push('a'); } i += 1; }
        let si = SourceInfo { src, nl_indices: nl };
        assert!(si.count_lines() == n + 1);
        let idx: usize = kani::any();
        kani::assume(idx <= len + 10);
        let (l, c) = si.get_pos_pair(idx);
        // line start of line k: 0 for k = 0, else nl[k-1] + 1
        let start = |k: usize| if k == 0 { 0 } else if k == 1 { a + 1 } else { b + 1 };
        assert!(l <= n);                 // never past the last line
        assert!(start(l) + c == idx);    // column measured from that line's start
        if idx <= len && l < n { let nl_l = if l == 0 { a } else { b }; assert!(idx <= nl_l); }
    }

    // C07: structural disassemble/reassemble
    #[kani::proof]
    #[kani::stub(std::hash::RandomState::new, stub_random_state)]
    #[kani::unwind(8)]
    fn disassemble_reassemble() {
        let w: u16 = kani::any();
        let pc: u16 = kani::any();
        let sym = SymbolTable { label_map: HashMap::new(), rel_map: HashMap::new(), debug_symbols: None };
        let st = crate::ast::asm::disassemble_line(w);
        assert!(st.labels.is_empty());
        match st.nucleus {
            StmtKind::Instr(i) => {
                assert!(w >= 0x0200);
                let s = i.into_sim_instr(pc, &sym);
                assert!(s.is_ok());
                assert!(s.unwrap().encode() == w);
            }
            StmtKind::Directive(Directive::Fill(PCOffset::Offset(o))) => {
                assert!(o.get() == w);
                assert!(w < 0x0200 || SimInstr::decode(w).is_err());
            }
            _ => assert!(false),
        }
    }
}
