#!/usr/bin/env python3
"""Developer helper: run ad-hoc harnesses of one module.  usage: dev.py <module.rs> [--args "<cbmc args>"] [--timeout s] h1 h2 ..."""
import sys, os, json, time
sys.path.insert(0, os.path.dirname(os.path.abspath(__file__)))
import runner
def main():
    a = sys.argv[1:]
    mod = a.pop(0)
    cbmc = []
    timeout = 900
    us = None
    while a and a[0].startswith("--"):
        if a[0] == "--args": cbmc = a[1].split(); a = a[2:]
        elif a[0] == "--timeout": timeout = int(a[1]); a = a[2:]
        elif a[0] == "--unwindset": us = dict(x.split("=") for x in a[1].split(",")); a = a[2:]
    inv = {v: k for k, v in runner.OVERLAY.items()}
    if mod in runner.CHILD_OF_GEN:
        srcrel, modname = inv[runner.CHILD_OF_GEN[mod]], "verif_kani_gen::objblock_h"
    else:
        srcrel, modname = runner.EXTRA_OVERLAY[mod] if mod in runner.EXTRA_OVERLAY else (inv[mod], "verif_kani")
    modpath = srcrel[:-3].replace("/", "::")
    obls = [{"id": h, "engine": "kani", "module": mod, "harness": f"{modpath}::{modname}::{h}", "cbmc_args": cbmc, "timeout_s": timeout, **({"unwindset": {k: int(v) for k, v in us.items()}} if us else {})} for h in a]
    key = runner.repo_key()
    sc = runner.Scratch(key, [mod])
    sc.prepare()
    import threading
    stop = threading.Event(); killed = []
    threading.Thread(target=runner.rss_watchdog, args=(stop, int(os.environ.get("VERIF_MAX_RSS_GB", "20")), killed), daemon=True).start()
    t0 = time.time()
    res = runner.run_kani_group(sc, "dev", obls, None)
    stop.set()
    sc.release()
    for h in a:
        r = res[h]
        print(f"{h}: {r['status']} wall={r.get('wall_s')} solver={r.get('solver_s')} checks={r.get('n_checks')} {r.get('reason','')[:1500]}")
        for fc in r.get("failed_checks", [])[:12]:
            print("    FAIL", fc)
    print(f"total {time.time()-t0:.1f}s killed={killed}; log: {sc.root}/out-dev.log")
main()
