// Kani contracts for src/ast.rs (overlaid as `crate::ast::verif_kani`).
// C35: Offset::<i16|u16, N>::{new, new_trunc} for N = 1..=16, complete over the full 16-bit domain.
use super::*;

/// Contract of `Offset::<i16, N>::new` / `new_trunc`, stated with plain integer arithmetic
/// (independent of the shift trick in `OffsetBacking::truncate`).
fn contract_i<const N: u32>() {
    let n: i16 = kani::any();
    let lo = -(1i32 << (N - 1));
    let hi = (1i32 << (N - 1)) - 1;
    let fits = (n as i32) >= lo && (n as i32) <= hi;
    kani::cover!(fits, "representable value reachable");
    kani::cover!(!fits || N == 16, "unrepresentable value reachable (or N == 16)");
    match Offset::<i16, N>::new(n) {
        Ok(o) => { assert!(fits, "C35.new.signed: accepted only when representable"); assert!(o.get() == n, "C35.new.signed: holds the value"); }
        Err(e) => { assert!(!fits, "C35.new.signed: rejected only when not representable"); assert!(e == OffsetNewErr::CannotFitSigned(N), "C35.new.signed: error names signed N"); }
    }
    let t = Offset::<i16, N>::new_trunc(n).get() as i32;
    assert!(t >= lo && t <= hi, "C35.new_trunc.signed: result representable in N bits");
    assert!(((t - n as i32) & ((1i32 << N) - 1)) == 0, "C35.new_trunc.signed: low N bits preserved");
}
fn contract_u<const N: u32>() {
    let n: u16 = kani::any();
    let fits = (n as u32) < (1u32 << N);
    kani::cover!(fits, "representable value reachable");
    kani::cover!(!fits || N == 16, "unrepresentable value reachable (or N == 16)");
    match Offset::<u16, N>::new(n) {
        Ok(o) => { assert!(fits, "C35.new.unsigned: accepted only when representable"); assert!(o.get() == n, "C35.new.unsigned: holds the value"); }
        Err(e) => { assert!(!fits, "C35.new.unsigned: rejected only when not representable"); assert!(e == OffsetNewErr::CannotFitUnsigned(N), "C35.new.unsigned: error names unsigned N"); }
    }
    assert!(Offset::<u16, N>::new_trunc(n).get() as u32 == (n as u32) & ((1u32 << N) - 1), "C35.new_trunc.unsigned: zero-extension of low N bits");
}

macro_rules! offset_harnesses {
    ($($n:literal => $i:ident, $u:ident);* $(;)?) => { $(
        #[kani::proof] fn $i() { contract_i::<$n>() }
        #[kani::proof] fn $u() { contract_u::<$n>() }
    )* }
}
offset_harnesses! {
    1 => offset_i_1, offset_u_1; 2 => offset_i_2, offset_u_2; 3 => offset_i_3, offset_u_3; 4 => offset_i_4, offset_u_4;
    5 => offset_i_5, offset_u_5; 6 => offset_i_6, offset_u_6; 7 => offset_i_7, offset_u_7; 8 => offset_i_8, offset_u_8;
    9 => offset_i_9, offset_u_9; 10 => offset_i_10, offset_u_10; 11 => offset_i_11, offset_u_11; 12 => offset_i_12, offset_u_12;
    13 => offset_i_13, offset_u_13; 14 => offset_i_14, offset_u_14; 15 => offset_i_15, offset_u_15; 16 => offset_i_16, offset_u_16;
}

/// Reg::try_from accepts exactly 0..=7 and keeps the number (used by decode and the parser).
#[kani::proof]
fn reg_try_from() {
    let n: u8 = kani::any();
    match Reg::try_from(n) {
        Ok(r) => { assert!(n < 8, "C05.reg: accepted only 0..=7"); assert!(r.reg_no() == n, "C05.reg: names that register"); }
        Err(_) => assert!(n >= 8, "C05.reg: rejected only when > 7"),
    }
}

/// Canary: a deliberately false postcondition; the runner requires this harness to FAIL.
#[kani::proof]
fn canary_must_fail() {
    let n: u16 = kani::any();
    assert!(Offset::<u16, 8>::new(n).is_ok(), "canary: false claim");
}
