// Kani contracts for the block writer of assembler pass 2: `ObjBlock` and its impls are items nested inside
// `ObjectFile::new`; their text is copied verbatim into the generated module `crate::asm::verif_kani_gen` on every
// run and this file is included as a CHILD module of that generated module (so that it can see the private fields).
// C01: .fill emits its value (or the label's address), .blkw n emits n uninitialized words, .stringz emits its bytes
// plus a zero word, .orig/.end/.external emit nothing -- and every directive emits exactly `Directive::word_len` words,
// which is what keeps the addresses computed by pass 1 and the words placed by pass 2 in step.
use super::*;
use crate::ast::{Label, Offset, PCOffset};
use crate::ast::asm::Directive;

/// `str::to_uppercase` is reached only through a label operand; obligations whose directive carries none replace it by a
/// function that fails when reached (CBMC otherwise explores it on the infeasible label arm with unconstrained text)
fn unreachable_upper(_s: &str) -> String { assert!(false, "harness: to_uppercase is unreachable for a directive without a label operand"); String::new() }
fn stub_random_state() -> std::hash::RandomState { unsafe { std::mem::transmute::<[u64; 2], std::hash::RandomState>([0, 0]) } }
fn empty_sym() -> SymbolTable { SymbolTable { label_map: HashMap::new(), rel_map: HashMap::new(), debug_symbols: None } }
/// a block that already holds PRE words (symbolic contents)
fn block<const PRE: usize>(start: u16) -> (ObjBlock, [Option<u16>; PRE]) {
    let old: [Option<u16>; PRE] = kani::any();
    let mut words = Vec::with_capacity(PRE + 8);
    let mut i = 0;
    while i < PRE { words.push(old[i]); i += 1; }
    (ObjBlock { start, words, orig_span: 0..5 }, old)
}
fn unchanged_prefix<const PRE: usize>(b: &ObjBlock, old: &[Option<u16>; PRE]) -> bool {
    let mut ok = b.words.len() >= PRE; let mut i = 0;
    while i < PRE { if ok && b.words[i] != old[i] { ok = false; } i += 1; }
    ok
}

/// .fill with a numeric operand: exactly its value, one word; the block's address range follows the emitted words
#[kani::proof] #[kani::stub(std::hash::RandomState::new, stub_random_state)] #[kani::stub(str::to_uppercase, unreachable_upper)] #[kani::unwind(10)]
fn write_fill() {
    let sym = empty_sym();
    let (mut b, old) = block::<2>(kani::any());
    let v: u16 = kani::any();
    let d = Directive::Fill(PCOffset::Offset(Offset::new_trunc(v)));
    let n = d.word_len() as usize;
    assert!(b.write_directive(d, &sym).is_ok(), "C01.fill: a numeric .fill always assembles");
    assert!(b.words.len() == 2 + n && n == 1 && b.words[2] == Some(v), "C01.fill: .fill emits exactly its value, one word");
    assert!(unchanged_prefix(&b, &old), "C01.emit: words already emitted are not touched");
    std::mem::forget(b);
}
/// the address range of a block: its start address and one address per emitted word (blocks end at or below xFE00: Cursor::shift)
#[kani::proof] #[kani::unwind(10)]
fn block_range() {
    let start: u16 = kani::any();
    let (b, _) = block::<3>(start);
    kani::assume(start as u32 + 3 <= 0xFE00);
    let r = b.range();
    assert!(r.start == start && r.end == start + 3, "C01.block: a block covers its start address and one address per emitted word");
    std::mem::forget(b);
}
/// .orig, .end, .external emit nothing (K selects the directive)
fn write_nothing<const K: u8>() {
    let sym = empty_sym();
    let (mut b, old) = block::<2>(kani::any());
    let d = match K { 0 => Directive::Orig(Offset::new_trunc(kani::any())), 1 => Directive::End, _ => Directive::External(Label::new(String::from("a"), 0..1)) };
    let n = d.word_len() as usize;
    assert!(b.write_directive(d, &sym).is_ok() && n == 0 && b.words.len() == 2, "C01.emit: .orig, .end and .external emit nothing");
    assert!(unchanged_prefix(&b, &old), "C01.emit: words already emitted are not touched");
    std::mem::forget(b);
}
#[kani::proof] #[kani::stub(std::hash::RandomState::new, stub_random_state)] #[kani::stub(str::to_uppercase, unreachable_upper)] #[kani::unwind(10)] fn write_nothing_orig() { write_nothing::<0>() }
#[kani::proof] #[kani::stub(std::hash::RandomState::new, stub_random_state)] #[kani::stub(str::to_uppercase, unreachable_upper)] #[kani::unwind(10)] fn write_nothing_end() { write_nothing::<1>() }
#[kani::proof] #[kani::stub(std::hash::RandomState::new, stub_random_state)] #[kani::stub(str::to_uppercase, unreachable_upper)] #[kani::unwind(10)] fn write_nothing_external() { write_nothing::<2>() }
/// .blkw n (one obligation per n): n uninitialized words, as many as its size says
fn write_blkw<const N: u16>() {
    let sym = empty_sym();
    let (mut b, old) = block::<1>(kani::any());
    let d = Directive::Blkw(Offset::new_trunc(N));
    let n = d.word_len() as usize;
    assert!(b.write_directive(d, &sym).is_ok(), "C01.blkw: .blkw always assembles");
    assert!(n == N as usize && b.words.len() == 1 + n, "C01.blkw: .blkw n emits exactly n words");
    let mut i = 0;
    while i < N as usize { assert!(b.words[1 + i].is_none(), "C01.blkw: ... all of them uninitialized"); i += 1; }
    assert!(unchanged_prefix(&b, &old), "C01.emit: words already emitted are not touched");
    std::mem::forget(b);
}
#[kani::proof] #[kani::stub(std::hash::RandomState::new, stub_random_state)] #[kani::stub(str::to_uppercase, unreachable_upper)] #[kani::unwind(10)] fn write_blkw_1() { write_blkw::<1>() }
#[kani::proof] #[kani::stub(std::hash::RandomState::new, stub_random_state)] #[kani::stub(str::to_uppercase, unreachable_upper)] #[kani::unwind(10)] fn write_blkw_4() { write_blkw::<4>() }
/// .stringz with L ASCII bytes (one obligation per L): the bytes in order, then a zero word
fn write_stringz<const L: usize>() {
    let sym = empty_sym();
    let (mut b, old) = block::<1>(kani::any());
    let bytes: [u8; L] = kani::any();
    let mut s = String::with_capacity(L);
    let mut i = 0;
    while i < L { kani::assume(bytes[i] < 0x80); s.push(bytes[i] as char); i += 1; }
    let d = Directive::Stringz(s);
    let n = d.word_len() as usize;
    assert!(b.write_directive(d, &sym).is_ok(), "C01.stringz: .stringz always assembles");
    assert!(n == L + 1 && b.words.len() == 1 + n, "C01.stringz: .stringz emits one word per byte plus one");
    let mut i = 0;
    while i < L { assert!(b.words[1 + i] == Some(bytes[i] as u16), "C01.stringz: the bytes, in order"); i += 1; }
    assert!(b.words[1 + L] == Some(0), "C01.stringz: ... followed by a zero word");
    assert!(unchanged_prefix(&b, &old), "C01.emit: words already emitted are not touched");
    std::mem::forget(b);
}
#[kani::proof] #[kani::stub(std::hash::RandomState::new, stub_random_state)] #[kani::stub(str::to_uppercase, unreachable_upper)] #[kani::unwind(10)] fn write_stringz_0() { write_stringz::<0>() }
#[kani::proof] #[kani::stub(std::hash::RandomState::new, stub_random_state)] #[kani::stub(str::to_uppercase, unreachable_upper)] #[kani::unwind(10)] fn write_stringz_3() { write_stringz::<3>() }
/// .fill with an undefined label: CouldNotFindLabel naming the label, nothing emitted
#[kani::proof] #[kani::stub(std::hash::RandomState::new, stub_random_state)] #[kani::unwind(10)]
fn write_fill_undefined_label() {
    let sym = empty_sym();
    let (mut b, old) = block::<1>(kani::any());
    let d = Directive::Fill(PCOffset::Label(Label::new(String::from("a"), 7..8)));
    match b.write_directive(d, &sym) {
        Ok(()) => assert!(false, "C02.label: a .fill whose label is undefined does not assemble"),
        Err(e) => { assert!(matches!(e.kind, AsmErrKind::CouldNotFindLabel) && e.span.first() == (7..8), "C02.kind / C26.span: undefined label, its span");
                    std::mem::forget(e); }
    }
    assert!(b.words.len() == 1 && unchanged_prefix(&b, &old), "C01.emit: a failed directive emits nothing");
    std::mem::forget(b);
}

/// .fill with a defined label (BOUNDED: one-label table, one-letter name, concrete spellings): the label's ADDRESS
/// (not an offset), whether or not the label is external (an external's placeholder address is patched by the linker)
#[kani::proof] #[kani::stub(std::hash::RandomState::new, stub_random_state)] #[kani::unwind(6)]
fn write_fill_defined_label() {
    let addr: u16 = kani::any();
    let mut label_map = HashMap::new();
    label_map.insert(String::from("A"), SymbolData { addr, src_start: 0, external: kani::any() });
    let sym = SymbolTable { label_map, rel_map: HashMap::new(), debug_symbols: None };
    let (mut b, old) = block::<1>(kani::any());
    let d = Directive::Fill(PCOffset::Label(Label::new(String::from("a"), 7..8)));
    let r = b.write_directive(d, &sym);
    assert!(r.is_ok(), "C01.fill: a .fill whose label is defined assembles");
    assert!(b.words.len() == 2 && b.words[1] == Some(addr), "C01.fill: .fill LABEL emits the label's address");
    assert!(unchanged_prefix(&b, &old), "C01.emit: words already emitted are not touched");
    std::mem::forget(b); std::mem::forget(sym); std::mem::forget(r);
}
