}
#[cfg(kani)]
mod verif_kani {
    use super::*;
    use crate::ast::{Reg, Label};

    fn any_reg() -> u8 { let r: u8 = kani::any(); kani::assume(r < 8); r }

    #[kani::proof]
    #[kani::unwind(12)]
    fn parse_add_imm_tokens() {
        let (a, b) = (any_reg(), any_reg());
        let x: i16 = kani::any();
        // "L ADD Ra, Rb, #x\n" with spans laid out left to right
        let tokens = vec![
            (Token::Ident(Ident::Label(String::from("L"))), 0..1),
            (Token::Ident(Ident::ADD), 2..5),
            (Token::Reg(a), 6..8),
            (Token::Comma, 8..9),
            (Token::Reg(b), 10..12),
            (Token::Comma, 12..13),
            (Token::Signed(x), 14..17),
            (Token::NewLine, 17..18),
        ];
        let mut p = Parser { tokens, index: 0, spans: vec![] };
        let r: Result<Stmt, ParseErr> = p.parse();
        let fits = x >= -16 && x <= 15;
        match r {
            Ok(st) => {
                assert!(fits);
                assert!(st.labels.len() == 1 && st.labels[0].name == "L" && st.labels[0].span() == (0..1));
                assert!(st.span == (2..17));
                match st.nucleus {
                    StmtKind::Instr(AsmInstr::ADD(dr, sr, ImmOrReg::Imm(i))) => assert!(dr.reg_no() == a && sr.reg_no() == b && i.get() == x),
                    _ => assert!(false),
                }
            }
            Err(e) => { assert!(!fits); assert!(e.span.start >= 0 && e.span.end <= 18); }
        }
    }
}
