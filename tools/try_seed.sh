#!/bin/bash
# usage: try_seed.sh <seed-id> <property> [quick|thorough]
# Runs the registered check of <property> against a scratch worktree of /repo with /verif/seeded/<seed-id>/patch.diff applied
# (VERIF_REPO/VERIF_OUT/VERIF_SCRATCH redirect the runner; /repo and the committed evidence are untouched).
# Prints one line: <seed-id> <property> rc=<exit code> <VIOLATION lines...>
SID=$1; PROP=$2; TIER=${3:-quick}
WT=/tmp/wt/seedrun-$SID-$PROP
OUTD=/tmp/wtout/seedrun/$SID-$PROP
rm -rf $OUTD; mkdir -p $OUTD
git -C /repo worktree add --detach $WT HEAD >/dev/null 2>&1 || { echo "$SID $PROP worktree-failed"; exit 2; }
git -C $WT apply ${SEED_DIR:-/verif/seeded}/$SID/patch.diff || { echo "$SID $PROP patch-failed"; git -C /repo worktree remove --force $WT; exit 2; }
cd /verif
VERIF_REPO=$WT VERIF_OUT=$OUTD VERIF_SCRATCH=/var/tmp/lc3v-seed/$SID-$PROP VERIF_NO_PLAYBACK=${VERIF_NO_PLAYBACK-1} ./check $PROP --tier $TIER > $OUTD/stdout.txt 2> $OUTD/stderr.txt
rc=$?
echo "$SID $PROP only=[${VERIF_ONLY:-}] rc=$rc $(grep -h '^VIOLATION\|^KNOWN' $OUTD/stdout.txt | tr '\n' ' ') $(grep -h 'obligations discharged' $OUTD/stderr.txt | tail -1)"
git -C /repo worktree remove --force $WT >/dev/null 2>&1
rm -rf /var/tmp/lc3v-seed/$SID-$PROP
