// Helper (no obligations): lets harness modules outside `crate::asm` build an `ObjectFile` with given blocks
// (overlaid as `crate::asm::verif_kani_obj`; `block_map` is private to this module tree).
use super::*;
pub(crate) fn verif_obj_1(start: u16, words: Vec<Option<u16>>) -> ObjectFile {
    let mut block_map = BTreeMap::new();
    block_map.insert(start, words);
    ObjectFile { block_map, sym: None }
}
pub(crate) fn verif_obj_2(s0: u16, w0: Vec<Option<u16>>, s1: u16, w1: Vec<Option<u16>>) -> ObjectFile {
    let mut block_map = BTreeMap::new();
    block_map.insert(s0, w0);
    block_map.insert(s1, w1);
    ObjectFile { block_map, sym: None }
}
/// an object file without blocks whose symbol table holds the single label "A" (external or not)
pub(crate) fn verif_obj_label_only(addr: u16, external: bool) -> ObjectFile {
    let mut label_map = HashMap::new();
    label_map.insert(String::from("A"), SymbolData { addr, src_start: 0, external });
    ObjectFile { block_map: BTreeMap::new(), sym: Some(SymbolTable { label_map, rel_map: HashMap::new(), debug_symbols: None }) }
}
