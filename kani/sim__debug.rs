// Kani contracts for src/sim/debug.rs (overlaid as `crate::sim::debug::verif_kani`).
// C13: breakpoint predicates (complete): a comparator holds exactly when the named relation holds of the
// unsigned 16-bit operand; a breakpoint looks at the PC, a register value or a memory word (no I/O effects).
use super::*;
use crate::sim::verif_kani::{any_sim, flags, scalars};
use crate::sim::frame::verif_kani::stub_random_state;

fn any_cmp(k: u8, r: u16) -> Comparator {
    match k { 0 => Comparator::Never, 1 => Comparator::Lt(r), 2 => Comparator::Eq(r), 3 => Comparator::Le(r),
              4 => Comparator::Gt(r), 5 => Comparator::Ne(r), 6 => Comparator::Ge(r), _ => Comparator::Always }
}
fn holds(k: u8, x: u16, r: u16) -> bool {
    // relation spelled out on 32-bit integers (independent of the u16 operators used by the code)
    let (x, r) = (x as i32, r as i32);
    match k { 0 => false, 1 => x - r < 0, 2 => x - r == 0, 3 => x - r <= 0, 4 => x - r > 0, 5 => x - r != 0, 6 => x - r >= 0, _ => true }
}
#[kani::proof]
fn comparator_check() {
    let (k, x, r): (u8, u16, u16) = (kani::any(), kani::any(), kani::any());
    kani::assume(k < 8);
    assert!(any_cmp(k, r).check(x) == holds(k, x, r), "C13.cmp: a comparator holds exactly when its relation holds of the unsigned operand");
}
#[kani::proof]
#[kani::stub(std::hash::RandomState::new, stub_random_state)]
#[kani::unwind(9)]
fn breakpoint_check() {
    let sim = any_sim(flags(kani::any(), kani::any(), kani::any()));
    let s0 = scalars(&sim);
    let (k, r): (u8, u16) = (kani::any(), kani::any());
    kani::assume(k < 8);
    let pcv: u16 = kani::any();
    assert!(Breakpoint::PC(pcv).check(&sim) == (pcv == s0.pc), "C13.bp: a PC breakpoint matches exactly at that PC");
    let n: u8 = kani::any(); kani::assume(n < 8);
    let reg = Reg::try_from(n).unwrap();
    assert!(Breakpoint::Reg { reg, value: any_cmp(k, r) }.check(&sim) == holds(k, s0.r[n as usize].get(), r), "C13.bp: a register breakpoint compares that register's value");
    let addr: u16 = kani::any();
    let cell = sim.mem[addr];
    assert!(Breakpoint::Mem { addr, value: any_cmp(k, r) }.check(&sim) == holds(k, cell.get(), r), "C13.bp: a memory breakpoint compares that memory word");
    assert!(scalars(&sim) == s0 && sim.mem[addr] == cell, "C13.bp: checking a breakpoint changes nothing");
}
