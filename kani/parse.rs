// Kani contracts for src/parse.rs (overlaid as `crate::parse::verif_kani`).
// C05, from the token value onwards: the value -> N-bit field conversions used for every operand kind
// (`TokenParse for Offset<i16,N>` / `Offset<u16,N>`, `IntLiteral`, `Reg`).  Complete over all token values.
// The text -> token value leg (logos DFA + validators) is outside this family's reach here (DESIGN C05).
use super::*;
use super::simple::*;
use super::lex::{Token, LexErr};
use crate::ast::{Offset, Reg, OffsetNewErr};

fn fmt_unreachable(_a: std::fmt::Arguments<'_>) -> String { panic!("error-message formatting is not reached by value conversions") }

/// Signed N-bit fields (imm5, offset6, PCoffset9, PCoffset11): a token value is accepted exactly when it
/// fits N bits two's complement, whichever notation (signed or unsigned token) it was written in.
fn signed_field<const N: u32>() {
    let tok_signed: bool = kani::any();
    let (si, un): (i16, u16) = (kani::any(), kani::any());
    let tok = if tok_signed { Token::Signed(si) } else { Token::Unsigned(un) };
    let value: i32 = if tok_signed { si as i32 } else { un as i32 };
    let lo = -(1i32 << (N - 1));
    let hi = (1i32 << (N - 1)) - 1;
    let fits = value >= lo && value <= hi;
    kani::cover!(fits && !tok_signed, "unsigned notation accepted reachable");
    kani::cover!(!fits && !tok_signed && un > 32767, "large unsigned literal reachable");
    let imed = match <Offset<i16, N> as TokenParse>::match_(Some(&tok), 0..1) {
        Ok(i) => i,
        Err(_) => { assert!(false, "C05.signed: an integer token is an immediate value"); return; }
    };
    match <Offset<i16, N> as TokenParse>::convert(imed, 0..1) {
        Ok(o) => { assert!(fits, "C05.signed: accepted only when the written value fits the field"); assert!(o.get() as i32 == value, "C05.signed: denotes the written value"); }
        Err(e) => {
            assert!(!fits, "C05.signed: rejected only when the written value does not fit");
            match e.kind {
                ParseErrKind::Lex(LexErr::DoesNotFitI16) => assert!(!tok_signed && un > 32767, "C05.signed: 'does not fit i16' only for unsigned literals above 32767"),
                ParseErrKind::OffsetNew(OffsetNewErr::CannotFitSigned(n)) => assert!(n == N, "C05.signed: error names the field width"),
                _ => assert!(false, "C05.signed: error kind names the violated condition"),
            }
        }
    }
}
/// Unsigned N-bit fields (trap vectors, .orig, .blkw): accepted exactly when 0 <= value < 2^N.
fn unsigned_field<const N: u32>() {
    let tok_signed: bool = kani::any();
    let (si, un): (i16, u16) = (kani::any(), kani::any());
    let tok = if tok_signed { Token::Signed(si) } else { Token::Unsigned(un) };
    let value: i32 = if tok_signed { si as i32 } else { un as i32 };
    let fits = value >= 0 && (value as u32) < (1u32 << N);
    kani::cover!(fits && tok_signed, "non-negative signed notation accepted reachable");
    let imed = match <Offset<u16, N> as TokenParse>::match_(Some(&tok), 0..1) {
        Ok(i) => i,
        Err(_) => { assert!(false, "C05.unsigned: an integer token is an immediate value"); return; }
    };
    match <Offset<u16, N> as TokenParse>::convert(imed, 0..1) {
        Ok(o) => { assert!(fits, "C05.unsigned: accepted only when the written value fits the field"); assert!(o.get() as i32 == value, "C05.unsigned: denotes the written value"); }
        Err(e) => {
            assert!(!fits, "C05.unsigned: rejected only when the written value does not fit");
            match e.kind {
                ParseErrKind::Lex(LexErr::DoesNotFitU16) => assert!(tok_signed && si < 0, "C05.unsigned: 'does not fit u16' only for negative literals"),
                ParseErrKind::OffsetNew(OffsetNewErr::CannotFitUnsigned(n)) => assert!(n == N, "C05.unsigned: error names the field width"),
                _ => assert!(false, "C05.unsigned: error kind names the violated condition"),
            }
        }
    }
}
macro_rules! field_harness {
    ($name:ident, $f:ident, $n:literal) => {
        #[kani::proof]
        #[kani::stub(alloc::fmt::format, fmt_unreachable)]
        fn $name() { $f::<$n>() }
    };
}
extern crate alloc;
field_harness!(convert_imm5, signed_field, 5);
field_harness!(convert_offset6, signed_field, 6);
field_harness!(convert_pcoffset9, signed_field, 9);
field_harness!(convert_pcoffset11, signed_field, 11);
field_harness!(convert_trapvect8, unsigned_field, 8);
field_harness!(convert_addr16, unsigned_field, 16);

/// `.fill` takes a literal of either signedness: the 16-bit pattern of the written value.
#[kani::proof]
#[kani::stub(alloc::fmt::format, fmt_unreachable)]
fn int_literal_either_sign() {
    let (si, un): (i16, u16) = (kani::any(), kani::any());
    match <IntLiteral as TokenParse>::match_(Some(&Token::Signed(si)), 0..1) {
        Ok(IntLiteral(v)) => assert!(v == si as u16, "C05.fill: a signed literal denotes its two's-complement pattern"),
        Err(_) => assert!(false, "C05.fill: every signed literal is accepted"),
    }
    match <IntLiteral as TokenParse>::match_(Some(&Token::Unsigned(un)), 0..1) {
        Ok(IntLiteral(v)) => assert!(v == un, "C05.fill: an unsigned literal denotes its value"),
        Err(_) => assert!(false, "C05.fill: every unsigned literal is accepted"),
    }
    assert!(<IntLiteral as TokenParse>::match_(Some(&Token::Comma), 0..1).is_err(), "C05.fill: a non-numeric token is not a literal");
    assert!(<IntLiteral as TokenParse>::match_(None, 0..1).is_err(), "C05.fill: end of input is not a literal");
}

/// A register token names register n exactly when n is 0..=7.
#[kani::proof]
fn reg_token_contract() {
    let n: u8 = kani::any();
    // (the rejection message is built with format!; it is replaced by a constant string here)
    match Reg::try_from(n) {
        Ok(r) => assert!(n < 8 && r.reg_no() == n, "C05.reg: register n for n in 0..=7"),
        Err(_) => assert!(n >= 8, "C05.reg: rejected otherwise"),
    }
}
fn fmt_const(_a: std::fmt::Arguments<'_>) -> String { String::new() }
#[kani::proof]
#[kani::stub(alloc::fmt::format, fmt_const)]
fn reg_token_match() {
    let n: u8 = kani::any();
    match <Reg as TokenParse>::match_(Some(&Token::Reg(n)), 0..2) {
        Ok(r) => assert!(n < 8 && r.reg_no() == n, "C05.reg: a register token names the register with that number when it is 0-7"),
        Err(_) => assert!(n >= 8, "C05.reg: and is rejected otherwise"),
    }
    assert!(<Reg as TokenParse>::match_(Some(&Token::Unsigned(n as u16)), 0..2).is_err(), "C05.reg: a number is not a register");
}
