"""Native search for a failing input when a Verus obligation is refuted (Verus gives no counterexample).

The search drives the *real* code of the tree under verification through its public API with a fixed,
boundary-heavy input set derived from the refuted contract, compares with the contract's formula and reports the
first disagreement.  It runs only after a refutation; on the unchanged tree it never runs.
"""
import json
import os
import re
import shutil
import subprocess
import hashlib

SHIFT = r'''
use lc3_ensemble::parse::parse_ast;
use lc3_ensemble::asm::{assemble, AsmErrKind};
fn kind_name(k: &AsmErrKind) -> String { format!("{k:?}") }
#[test]
fn verif_search() {
    let xs = [0u32, 1, 0x2FFF, 0x3000, 0xFDF0, 0xFDFD, 0xFDFE, 0xFDFF, 0xFE00, 0xFE01, 0xFFF0, 0xFFFE, 0xFFFF];
    let ns = [1u32, 2, 3, 0xF, 0x10, 0x11, 0x1FF, 0x200, 0x201, 0x202, 0x20F, 0x210, 0xFFFF];
    let ms = [0u32, 1, 2, 0x10];
    let mut checked = 0u32;
    for &x in &xs { for &n in &ns { for &m in &ms {
        let mut src = format!(".orig x{x:04X}\n.blkw #{n}\n");
        if m > 0 { src += &format!(".blkw #{m}\n"); }
        src += ".end\n";
        let ast = parse_ast(&src).expect("program parses");
        let got = match assemble(ast) { Ok(_) => "Ok".to_string(), Err(e) => kind_name(&e.kind) };
        // contract of the location counter: a block may grow by k words iff it stays at or below xFE00 without wrapping
        let classify = |end: u32| if end <= 0xFE00 { "Ok" } else if end <= 0x10000 { "BlockInIO" } else { "WrappingBlock" };
        let e1 = x + n;
        let want = if classify(e1) != "Ok" || m == 0 { classify(e1) } else { classify(e1 + m) };
        checked += 1;
        if got != want {
            println!("VERIF-FOUND {{\"program\": {src:?}, \"observed\": {got:?}, \"expected\": {want:?}}}");
            panic!("contract of the location counter violated");
        }
    }}}
    // pseudo-random origins and sizes (fixed LCG, seeded by VERIF_SEED)
    let mut st: u64 = 0x9E3779B97F4A7C15 ^ std::env::var("VERIF_SEED").ok().and_then(|s| s.parse::<u64>().ok()).unwrap_or(0);
    let mut next = || { st = st.wrapping_mul(6364136223846793005).wrapping_add(1442695040888963407); (st >> 33) as u32 };
    for _ in 0..1500 {
        let x = next() & 0xFFFF; let n = (next() & 0xFFFF).max(1); let m = if next() & 1 == 0 { 0 } else { (next() & 0x3FF).max(1) };
        let mut src = format!(".orig x{x:04X}\n.blkw #{n}\n");
        if m > 0 { src += &format!(".blkw #{m}\n"); }
        src += ".end\n";
        let ast = parse_ast(&src).expect("program parses");
        let got = match assemble(ast) { Ok(_) => "Ok".to_string(), Err(e) => kind_name(&e.kind) };
        let classify = |end: u32| if end <= 0xFE00 { "Ok" } else if end <= 0x10000 { "BlockInIO" } else { "WrappingBlock" };
        let e1 = x + n;
        let want = if classify(e1) != "Ok" || m == 0 { classify(e1) } else { classify(e1 + m) };
        checked += 1;
        if got != want {
            println!("VERIF-FOUND {{\"program\": {src:?}, \"observed\": {got:?}, \"expected\": {want:?}}}");
            panic!("contract of the location counter violated");
        }
    }
    println!("VERIF-NONE checked={checked}");
}
'''

SRCINFO = r'''
use lc3_ensemble::asm::SourceInfo;
#[test]
fn verif_search() {
    let mut checked = 0u32;
    for len in 0..=8usize { for bits in 0..(1u32 << len) {
        let s: String = (0..len).map(|i| if bits >> i & 1 == 1 { '\n' } else { 'a' }).collect();
        let si = SourceInfo::new(&s);
        let nls: Vec<usize> = s.bytes().enumerate().filter(|(_, b)| *b == b'\n').map(|(i, _)| i).collect();
        let lines = nls.len() + 1;
        if si.count_lines() != lines {
            println!("VERIF-FOUND {{\"text\": {s:?}, \"query\": \"count_lines\", \"observed\": {}, \"expected\": {lines}}}", si.count_lines());
            panic!("count_lines");
        }
        for idx in 0..=len + 3 {
            let l = if idx <= len { nls.iter().filter(|&&p| p < idx).count() } else { lines - 1 };
            let start = if l == 0 { 0 } else { nls[l - 1] + 1 };
            let want = (l, idx - start);
            let got = si.get_pos_pair(idx);
            checked += 1;
            if got != want {
                println!("VERIF-FOUND {{\"text\": {s:?}, \"index\": {idx}, \"observed\": \"{got:?}\", \"expected\": \"{want:?}\"}}");
                panic!("get_pos_pair");
            }
        }
    }}
    println!("VERIF-NONE checked={checked}");
}
'''

TIMER = r'''
use lc3_ensemble::sim::device::{ExternalDevice, TimerDevice};
fn gaps(t: &mut TimerDevice, polls: usize) -> (Option<usize>, Vec<usize>) {
    let mut first = None; let mut last: Option<usize> = None; let mut g = vec![];
    for i in 0..polls {
        if t.poll_interrupt().is_some() {
            if first.is_none() { first = Some(i); }
            if let Some(p) = last { g.push(i - p - 1); }
            last = Some(i);
        }
    }
    (first, g)
}
#[test]
fn verif_search() {
    let mut checked = 0u32;
    let ranges: [(u32, u32); 12] = [(1, 1), (2, 2), (3, 3), (6, 6), (1, 3), (2, 5), (1, 2), (4, 4), (5, 9), (10, 10), (1, 6), (7, 8)];
    for &(a, b) in &ranges { for seed in 1..=10u64 {
        let mut t = TimerDevice::new(Some(seed), a..=b, 0x81, 4);
        t.enabled = true;
        let (first, g) = gaps(&mut t, 200);
        checked += 1;
        let bad_first = first.map_or(true, |f| f > b as usize);
        let bad_gap = g.iter().find(|&&x| (x as u32) < a || (x as u32) > b).copied();
        if bad_first || bad_gap.is_some() || g.is_empty() {
            println!("VERIF-FOUND {{\"range\": \"{a}..={b}\", \"seed\": {seed}, \"first_interrupt_at_poll\": \"{first:?}\", \"gap_outside_range\": \"{bad_gap:?}\", \"gaps\": {}}}", g.len());
            panic!("timer interval");
        }
        // half-open form of the same range
        let mut t = TimerDevice::new(Some(seed), a..b + 1, 0x81, 4);
        t.enabled = true;
        let (_, g) = gaps(&mut t, 200);
        if let Some(x) = g.iter().find(|&&x| (x as u32) < a || (x as u32) > b) {
            println!("VERIF-FOUND {{\"range\": \"{a}..{}\", \"seed\": {seed}, \"gap_outside_range\": {x}}}", b + 1);
            panic!("timer interval (half-open range)");
        }
        // a disabled timer never fires
        let mut t = TimerDevice::new(Some(seed), a..=b, 0x81, 4);
        let (first, _) = gaps(&mut t, 50);
        if first.is_some() { println!("VERIF-FOUND {{\"range\": \"{a}..={b}\", \"disabled_timer_fired_at\": \"{first:?}\"}}"); panic!("disabled timer"); }
    }}
    println!("VERIF-NONE checked={checked}");
}
'''

CONSTRUCTOR = r'''
use lc3_ensemble::sim::mem::MachineInitStrategy;
use lc3_ensemble::sim::{SimFlags, Simulator};
use std::sync::Arc;
use std::sync::atomic::Ordering;
fn io_page(sim: &Simulator, what: &str, strat: &str) -> bool {
    for addr in 0xFE00u16..=0xFFFF {
        let w = sim.mem[addr];
        if w.get() != 0 || !w.is_init() {
            println!("VERIF-FOUND {{\"machine\": {what:?}, \"strategy\": {strat:?}, \"address\": \"x{addr:04X}\", \"word\": \"x{:04X}\", \"initialized\": {}, \"expected\": \"initialized x0000\"}}", w.get(), w.is_init());
            return false;
        }
    }
    true
}
#[test]
fn verif_search() {
    let mut checked = 0u32;
    let strategies = [("Known(xABCD)", MachineInitStrategy::Known { value: 0xABCD }), ("Known(0)", MachineInitStrategy::Known { value: 0 }),
                      ("Seeded(1)", MachineInitStrategy::Seeded { seed: 1 }), ("Unseeded", MachineInitStrategy::Unseeded)];
    for (name, strat) in strategies { for mcr_on in [false, true] { for debug_frames in [false, true] {
        let flags = SimFlags { machine_init: strat, debug_frames, ..Default::default() };
        let mut sim = Simulator::new(flags);
        checked += 1;
        if !io_page(&sim, "Simulator::new", name) { panic!("I/O page of a new simulator"); }
        if sim.instructions_run != 0 || sim.flags != flags {
            println!("VERIF-FOUND {{\"machine\": \"Simulator::new\", \"strategy\": {name:?}, \"instructions_run\": {}, \"flags_kept\": {}}}", sim.instructions_run, sim.flags == flags);
            panic!("new simulator");
        }
        // the constructor as `reset` uses it: with the live MCR handle
        let h = Arc::clone(sim.mcr());
        h.store(mcr_on, Ordering::Relaxed);
        sim.reset();
        if !io_page(&sim, if mcr_on { "reset with the MCR set" } else { "reset with the MCR clear" }, name) { panic!("I/O page after reset"); }
        if !Arc::ptr_eq(&h, sim.mcr()) || h.load(Ordering::Relaxed) != mcr_on || sim.instructions_run != 0 || sim.flags != flags {
            println!("VERIF-FOUND {{\"machine\": \"reset\", \"strategy\": {name:?}, \"mcr_before\": {mcr_on}, \"same_mcr_handle\": {}, \"mcr_after\": {}, \"instructions_run\": {}, \"flags_kept\": {}}}",
                     Arc::ptr_eq(&h, sim.mcr()), h.load(Ordering::Relaxed), sim.instructions_run, sim.flags == flags);
            panic!("machine rebuilt by reset");
        }
    }}}
    println!("VERIF-NONE checked={checked}");
}
'''

KINDS = {"shift": SHIFT, "srcinfo": SRCINFO, "timer": TIMER, "constructor": CONSTRUCTOR}


def run(kind, repo, seed=0):
    src = KINDS.get(kind)
    if src is None:
        return {"found": False, "note": f"no native search defined for {kind}"}
    root = os.path.join(os.environ.get("VERIF_SCRATCH", "/var/tmp/lc3v"), "ns-" + kind + "-" + hashlib.sha256(repo.encode()).hexdigest()[:8])
    work = os.path.join(root, "repo")
    try:
        shutil.rmtree(root, ignore_errors=True)
        os.makedirs(work)
        subprocess.run(["rsync", "-a", "--exclude", "target", "--exclude", ".git", repo + "/", work + "/"], check=True)
        os.makedirs(os.path.join(work, "tests"), exist_ok=True)
        with open(os.path.join(work, "tests", "verif_search.rs"), "w") as f:
            f.write(src)
        cmd = ["cargo", "test", "--offline", "--test", "verif_search", "--", "--nocapture"]
        p = subprocess.run(cmd, cwd=work, capture_output=True, text=True, timeout=900, env=dict(os.environ, CARGO_NET_OFFLINE="true", VERIF_SEED=str(seed)))
        out = p.stdout + p.stderr
        m = re.search(r"VERIF-FOUND (\{.*\})", out)
        if m:
            try:
                inp = json.loads(m.group(1))
            except Exception:
                inp = {"raw": m.group(1)}
            return {"found": True, "input": inp, "cmd": " ".join(cmd) + "  (test file generated by vlib/native_search.py, kind=" + kind + ")", "output_tail": out[-1500:]}
        m = re.search(r"VERIF-NONE checked=(\d+)", out)
        return {"found": False, "checked": int(m.group(1)) if m else None, "cmd": " ".join(cmd), "output_tail": out[-1500:]}
    except Exception as e:  # a search that cannot run is not an alarm
        return {"found": False, "note": "native search did not run: " + str(e)[:300]}
    finally:
        shutil.rmtree(root, ignore_errors=True)


if __name__ == "__main__":
    import sys
    print(json.dumps(run(sys.argv[1], sys.argv[2] if len(sys.argv) > 2 else "/repo"), indent=1))
