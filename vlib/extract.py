"""Mechanical extraction of function bodies from /repo for the Verus units (DESIGN.md section 2.2).

A unit is described by /verif/verus/<unit>.json:
  { "template": "<unit>.tmpl",
    "bodies":  [ {"marker": "@@BODY shift@@", "file": "src/asm.rs", "within": "<regex locating the enclosing item>",
                  "signature": "<regex that must match the fn signature text exactly>"} ],
    "lines":   [ {"marker": "@@LINE IO_START@@", "file": "src/asm.rs", "regex": "^const IO_START: u16 = 0xFE00;$"} ],
    "structs": [ {"file": "...", "name": "Cursor", "within": "...", "fields": {"lc": "u16", "overflowed": "bool"},
                  "dropped_fields_ok": ["block_orig"]} ] }

The text between the braces of each function is copied verbatim into the template at its marker.
What extraction drops: doc comments/attributes in front of the fn, the surrounding items not mentioned
by the body, struct fields listed under dropped_fields_ok (types Verus cannot see).  Anything else that
does not match (lost anchor, changed signature, new/renamed field) raises ExtractError -> exit 2.
"""
import hashlib
import json
import os
import re


class ExtractError(Exception):
    pass


def _skip_noncode(s, i):
    """If s[i:] starts a comment, string or char literal, return the index just past it; else i."""
    if s.startswith("//", i):
        j = s.find("\n", i)
        return len(s) if j < 0 else j
    if s.startswith("/*", i):
        depth, j = 1, i + 2
        while j < len(s) and depth:
            if s.startswith("/*", j):
                depth += 1
                j += 2
            elif s.startswith("*/", j):
                depth -= 1
                j += 2
            else:
                j += 1
        return j
    if s[i] == '"':
        j = i + 1
        while j < len(s) and s[j] != '"':
            j += 2 if s[j] == "\\" else 1
        return j + 1
    if s[i] == "'":
        # char literal ('x', '\n', '\'') vs lifetime ('a)
        m = re.match(r"'(\\.[^']*|[^\\'])'", s[i:])
        if m:
            return i + m.end()
    return i


def balanced(s, open_idx):
    """s[open_idx] == '{' ; return index of the matching '}'."""
    assert s[open_idx] == "{"
    depth, i = 0, open_idx
    while i < len(s):
        j = _skip_noncode(s, i)
        if j != i:
            i = j
            continue
        c = s[i]
        if c == "{":
            depth += 1
        elif c == "}":
            depth -= 1
            if depth == 0:
                return i
        i += 1
    raise ExtractError("unbalanced braces")


def find_item(text, within):
    """Return (start, end) span of the brace-delimited item whose header matches regex `within`."""
    if not within:
        return 0, len(text)
    m = re.search(within, text, re.M)
    if not m:
        raise ExtractError(f"lost anchor: enclosing item /{within}/ not found")
    ob = text.find("{", m.end() - 1 if text[m.end() - 1] == "{" else m.end())
    if ob < 0:
        raise ExtractError(f"lost anchor: no body after /{within}/")
    cb = balanced(text, ob)
    return ob, cb + 1


def extract_body(repo, spec):
    path = os.path.join(repo, spec["file"])
    try:
        text = open(path).read()
    except OSError:
        raise ExtractError(f"lost anchor: {spec['file']} missing")
    s, e = find_item(text, spec.get("within"))
    region = text[s:e]
    ms = list(re.finditer(spec["signature"], region, re.M))
    if len(ms) != 1:
        raise ExtractError(f"lost anchor: signature /{spec['signature']}/ matched {len(ms)} times in {spec['file']}")
    m = ms[0]
    ob = region.find("{", m.end())
    if ob < 0 or region[m.end():ob].strip() not in ("",):
        raise ExtractError(f"lost anchor: unexpected text between signature and body of /{spec['signature']}/: {region[m.end():ob]!r}")
    cb = balanced(region, ob)
    body = region[ob + 1:cb]
    line = text[:s + ob].count("\n") + 1
    return body, {"file": spec["file"], "signature": m.group(0).strip(), "line": line,
                  "sha256": hashlib.sha256(body.encode()).hexdigest(), "bytes": len(body)}


def check_struct(repo, spec):
    text = open(os.path.join(repo, spec["file"])).read()
    s, e = find_item(text, spec.get("within"))
    region = text[s:e]
    m = re.search(r"\bstruct\s+" + re.escape(spec["name"]) + r"\b[^{;]*\{", region)
    if not m:
        raise ExtractError(f"lost anchor: struct {spec['name']} not found in {spec['file']}")
    ob = m.end() - 1
    cb = balanced(region, ob)
    body = region[ob + 1:cb]
    # strip comments
    body = re.sub(r"//[^\n]*", "", body)
    body = re.sub(r"#\[[^\]]*\]", "", body)
    fields = {}
    for fm in re.finditer(r"(?:pub(?:\([^)]*\))?\s+)?(\w+)\s*:\s*([^,\n]+(?:<[^>]*>)?)\s*,?", body):
        fields[fm.group(1)] = fm.group(2).strip().rstrip(",")
    for f, t in spec["fields"].items():
        if f not in fields:
            raise ExtractError(f"struct {spec['name']}: field {f} missing (skeleton in the template no longer matches)")
        if fields[f].replace(" ", "") != t.replace(" ", ""):
            raise ExtractError(f"struct {spec['name']}: field {f} has type {fields[f]}, template assumes {t}")
    extra = set(fields) - set(spec["fields"]) - set(spec.get("dropped_fields_ok", []))
    if extra:
        raise ExtractError(f"struct {spec['name']}: new fields {sorted(extra)} not covered by the template")
    return {"struct": spec["name"], "fields_checked": spec["fields"], "fields_dropped": spec.get("dropped_fields_ok", [])}


def build_unit(unit, repo, verus_dir):
    spec = json.load(open(os.path.join(verus_dir, unit + ".json")))
    tmpl = open(os.path.join(verus_dir, spec["template"])).read()
    meta = {"unit": unit, "bodies": [], "structs": [], "lines": []}
    for b in spec.get("bodies", []):
        body, m = extract_body(repo, b)
        if tmpl.count(b["marker"]) != 1:
            raise ExtractError(f"template marker {b['marker']} must occur exactly once")
        tmpl = tmpl.replace(b["marker"], body)
        meta["bodies"].append(m)
    for l in spec.get("lines", []):
        text = open(os.path.join(repo, l["file"])).read()
        ms = re.findall(l["regex"], text, re.M)
        if len(ms) != 1:
            raise ExtractError(f"lost anchor: line /{l['regex']}/ matched {len(ms)} times in {l['file']}")
        tmpl = tmpl.replace(l["marker"], ms[0])
        meta["lines"].append({"file": l["file"], "text": ms[0]})
    for st in spec.get("structs", []):
        meta["structs"].append(check_struct(repo, st))
    meta["drops"] = spec.get("drops", [])
    return tmpl, meta


def extract_item(repo, spec):
    """Verbatim copy of a brace-delimited item (struct / impl block) whose header matches `header` inside `within`."""
    path = os.path.join(repo, spec["file"])
    try:
        text = open(path).read()
    except OSError:
        raise ExtractError(f"lost anchor: {spec['file']} missing")
    s, e = find_item(text, spec.get("within"))
    region = text[s:e]
    ms = list(re.finditer(spec["header"], region, re.M))
    if len(ms) != 1:
        raise ExtractError(f"lost anchor: item header /{spec['header']}/ matched {len(ms)} times in {spec['file']}")
    m = ms[0]
    ob = region.find("{", m.end() - 1 if region[m.end() - 1] == "{" else m.end())
    if ob < 0 or region[m.end():ob].strip() not in ("", "{"):
        raise ExtractError(f"lost anchor: unexpected text after item header /{spec['header']}/")
    cb = balanced(region, ob)
    item = region[m.start():cb + 1]
    return item, {"file": spec["file"], "header": m.group(0).strip(), "line": text[:s + m.start()].count("\n") + 1,
                  "sha256": hashlib.sha256(item.encode()).hexdigest(), "bytes": len(item)}


def build_kani_gen(spec, repo_copy):
    """Generated Kani sibling module: verbatim copies of functions that are nested inside other functions (and therefore
    not nameable from a harness).  Each is emitted as `pub(crate) ` + its signature text + `{` + its body + `}`."""
    out = ["// GENERATED on every run by vlib/extract.py from the tree under verification -- do not edit.\n",
           "// Verbatim copies of nested functions; the only change is `pub(crate)` in front of each signature.\n",
           "#![allow(unused_imports, dead_code)]\nuse super::*;\n"]
    for line in spec.get("uses", []):
        out.append(line + "\n")
    meta = {"functions": []}
    for f in spec["functions"]:
        body, m = extract_body(repo_copy, f)
        out.append("\n// from %s line %d\npub(crate) %s {%s}\n" % (m["file"], m["line"], m["signature"], body))
        meta["functions"].append(m)
    meta["items"] = []
    for it in spec.get("items", []):
        item, m = extract_item(repo_copy, it)
        out.append("\n// from %s line %d (verbatim)\n%s\n" % (m["file"], m["line"], item))
        meta["items"].append(m)
    # harness modules that must see the private fields of the copied items are children of this generated module
    for ch in spec.get("child_modules", []):
        out.append('\n#[path = "%s"] pub(crate) mod %s;\n' % (os.path.join(os.path.dirname(os.path.dirname(os.path.abspath(__file__))), "kani", ch["file"]), ch["name"]))
    meta["drops"] = spec.get("drops", [])
    return "".join(out), meta


if __name__ == "__main__":
    import sys
    t, m = build_unit(sys.argv[1], sys.argv[2] if len(sys.argv) > 2 else "/repo", os.path.join(os.path.dirname(os.path.dirname(os.path.abspath(__file__))), "verus"))
    sys.stdout.write(t)
    sys.stderr.write(json.dumps(m, indent=1) + "\n")
