}
#[cfg(kani)]
pub(crate) mod verif_kani {
    use super::*;
    impl kani::Arbitrary for Word {
        fn any() -> Self { Word { data: kani::any(), init: kani::any() } }
    }
    impl MemArray {
        pub(crate) fn verif_any() -> Self { MemArray(unsafe { Box::<[Word; 1 << 16]>::new_uninit().assume_init() }) }
    }
    impl Word { pub(crate) const ZERO_INIT: Word = Word { data: 0, init: 0xFFFF }; }
    impl RegFile {
        pub(crate) fn verif_any() -> Self { RegFile(kani::any()) }
    }
    fn copy_block_case<const N: usize>() {
        let mut m = MemArray::verif_any();
        let start: u16 = kani::any();
        let d: [Option<u16>; N] = kani::any();
        let probe: u16 = kani::any();
        let before = m[probe];
        m.copy_obj_block(start, &d);
        let off = probe.wrapping_sub(start) as usize;
        if off < N {
            match d[off] { Some(v) => assert!(m[probe] == Word::new_init(v)), None => assert!(m[probe].get() == before.get() && !m[probe].is_init()) }
        } else {
            assert!(m[probe] == before);
        }
    }
    #[kani::proof] #[kani::unwind(5)] fn copy_block_2() { copy_block_case::<2>() }
    // C29/C19: copy_obj_block places exactly the block, wrap-around included
    #[kani::proof]
    #[kani::unwind(5)]
    fn copy_obj_block_exact() {
        let mut m = MemArray::verif_any();
        let start: u16 = kani::any();
        let n: usize = kani::any();
        kani::assume(n <= 3);
        let d: [Option<u16>; 3] = kani::any();
        let probe: u16 = kani::any();
        let before = m[probe];
        m.copy_obj_block(start, &d[..n]);
        let off = probe.wrapping_sub(start) as usize;
        if off < n {
            match d[off] { Some(v) => assert!(m[probe] == Word::new_init(v)), None => assert!(m[probe].get() == before.get() && !m[probe].is_init()) }
        } else {
            assert!(m[probe] == before);
        }
    }
}
