// Kani contracts for src/sim.rs (overlaid as `crate::sim::verif_kani`).
//
// Layers (DESIGN.md section 3.1):
//   L0  leaf contracts: PSR, set_cc, prefetch_pc, in_alloca, default_mem_ctx, InternalRegister
//   L1  read_mem / write_mem on the real bodies over a nondeterministic 64K memory
//   L2  step_in / step / _step_inner / handle_interrupt / call_interrupt / call_subroutine / set_pc /
//       offset_pc with read_mem / write_mem replaced by their L1 contract (a fixed-slot
//       access table `TAB` filled by the reference and ticked off by the stubs), compared against the independent ISA
//       reference `isa::step` (written from Patt & Patel App. A; shares no code with sim.rs)
//   relational harnesses for C12 (real vs virtual traps), C14 (strict vs non-strict),
//   run loops with `step` replaced by its contract (C13), reset (C30), mmap_internal (C32).
use super::*;
use super::frame::verif_kani::stub_random_state;

// =================================================================================================
// symbolic machine state

pub(crate) fn flags(strict: bool, real: bool, ignore: bool) -> SimFlags {
    SimFlags { strict, use_real_traps: real, machine_init: MachineInitStrategy::Known { value: 0 }, debug_frames: false, ignore_privilege: ignore }
}
pub(crate) fn any_sim(fl: SimFlags) -> Simulator { any_sim_with(fl, DeviceHandler::verif_unused()) }
pub(crate) fn any_sim_with(fl: SimFlags, device_handler: DeviceHandler) -> Simulator {
    Simulator {
        mem: MemArray::verif_any(),
        reg_file: RegFile::verif_any(),
        pc: kani::any(),
        psr: PSR(kani::any()),
        saved_sp: kani::any(),
        frame_stack: FrameStack::verif_new(kani::any()),
        alloca: Box::new([]),
        instructions_run: kani::any(),
        prefetch: kani::any(),
        pause_condition: Default::default(),
        observer: Default::default(),
        os_loaded: true,
        mcr: Arc::default(),
        flags: fl,
        breakpoints: Default::default(),
        ireg_mmap: HashMap::new(),
        device_handler,
    }
}
/// Scalar machine state (everything a step may change except memory).
#[derive(Clone, Copy, PartialEq, Eq)]
pub(crate) struct Scalars { pub r: [Word; 8], pub pc: u16, pub psr: u16, pub ssp: Word, pub depth: u64, pub icount: u64 }
pub(crate) fn scalars(s: &Simulator) -> Scalars {
    Scalars { r: s.reg_file.verif_snapshot(), pc: s.pc, psr: s.psr.get(), ssp: s.saved_sp, depth: s.frame_stack.len(), icount: s.instructions_run }
}
pub(crate) fn sim_from(sc: Scalars, fl: SimFlags) -> Simulator {
    let mut s = any_sim(fl);
    s.reg_file = RegFile::verif_from(sc.r);
    s.pc = sc.pc; s.psr = PSR(sc.psr); s.saved_sp = sc.ssp;
    s.frame_stack = FrameStack::verif_new(sc.depth);
    s.instructions_run = sc.icount;
    s
}
pub(crate) fn any_scalars() -> Scalars {
    Scalars { r: kani::any(), pc: kani::any(), psr: kani::any(), ssp: kani::any(), depth: kani::any(), icount: kani::any() }
}

// =================================================================================================
// L1 contract of read_mem / write_mem as used by the L2 obligations.
//
// Memory is "a function from addresses to words".  The ISA reference runs first on the pre-state and
// writes down, in a table with fixed slots, every access the ISA prescribes for this step: for each
// read the address, the pre-state word at that address (an arbitrary word, equal for equal
// addresses) and the privilege the access must carry; for each write the address and the word.
// The contract stubs that replace `Simulator::read_mem` / `write_mem` in the real step perform the
// access check and the strictness check of the L1 contract, apply the internal-register side effects
// of the default map (PSR@xFFFC, MCR@xFFFE), serve reads from that memory function (a word written
// earlier in the same step wins) and tick off the prescribed accesses.  Any access the ISA does not
// prescribe is recorded as `extra_*`; the obligations assert that none happened and that every
// prescribed access was made.  No slot is ever indexed symbolically (SAT-friendly).

#[derive(Clone, Copy)]
pub(crate) struct RSlot { pub valid: bool, pub addr: u16, pub pre: Word, pub privileged: bool, pub seen: bool }
#[derive(Clone, Copy)]
pub(crate) struct WSlot {
    pub valid: bool, pub addr: u16, pub val: Word,
    /// an exception entry may push the faulting address or the address after it
    pub alt: bool,
    pub privileged: bool, pub seen: bool,
    /// the word the real step wrote there
    pub written: Word,
}
pub(crate) const NR: usize = 4;
pub(crate) const NW: usize = 2;
#[derive(Clone, Copy)]
pub(crate) struct Table {
    pub r: [RSlot; NR], pub w: [WSlot; NW],
    pub extra_read: bool, pub extra_write: bool, pub bad_priv: bool, pub untracked: bool,
    pub n_reads: u8, pub n_writes: u8,
    /// "a machine whose memory is all initialized": pre-state words are fully initialized
    pub all_init: bool,
    /// words written by the previous step of a two-step obligation (pre-state of this step)
    pub base: [(bool, u16, Word); NW],
}
const W0: Word = Word::verif_zero();
const R0S: RSlot = RSlot { valid: false, addr: 0, pre: W0, privileged: false, seen: false };
const W0S: WSlot = WSlot { valid: false, addr: 0, val: W0, alt: false, privileged: false, seen: false, written: W0 };
impl Table {
    pub(crate) const fn new() -> Self {
        Table { r: [R0S; NR], w: [W0S; NW], extra_read: false, extra_write: false, bad_priv: false, untracked: false,
                n_reads: 0, n_writes: 0, all_init: false, base: [(false, 0, W0); NW] }
    }
    /// forget what a run ticked off (second run of a relational obligation, same memory function)
    pub(crate) fn rewind(&mut self) {
        let mut i = 0; while i < NR { self.r[i].seen = false; i += 1; }
        let mut j = 0; while j < NW { self.w[j].seen = false; self.w[j].written = W0; j += 1; }
        self.extra_read = false; self.extra_write = false; self.bad_priv = false; self.untracked = false;
        self.n_reads = 0; self.n_writes = 0;
    }
    pub(crate) fn clean(&self) -> bool { !self.extra_read && !self.extra_write && !self.bad_priv && !self.untracked }
    pub(crate) fn all_seen(&self) -> bool {
        let mut ok = true;
        let mut i = 0; while i < NR { if self.r[i].valid && !self.r[i].seen { ok = false; } i += 1; }
        let mut j = 0; while j < NW { if self.w[j].valid && !self.w[j].seen { ok = false; } j += 1; }
        ok
    }
}
pub(crate) static mut TAB: Table = Table::new();
#[allow(static_mut_refs)]
pub(crate) fn tab() -> &'static mut Table { unsafe { &mut TAB } }

fn user_range(addr: u16) -> bool { addr >= 0x3000 && addr < 0xFE00 }

/// Contract stub of `Simulator::read_mem` for the default internal-register map (PSR@xFFFC, MCR@xFFFE).
/// Discharged against the real body by the L1 obligations `l1_read_*`.
pub(crate) fn contract_read_mem(s: &mut Simulator, addr: u16, ctx: MemAccessCtx) -> Result<Word, SimErr> {
    if !ctx.privileged && !user_range(addr) { return Err(SimErr::AccessViolation); }
    let t = tab();
    if !(ctx.track_access && ctx.io_effects) { t.untracked = true; }
    if t.n_reads < 200 { t.n_reads += 1; }
    // the pre-state word at this address (prescribed reads only; anything else is flagged)
    let mut found = false; let mut priv_ok = false;
    let mut pre: Word = W0;
    let mut i = 0;
    while i < NR {
        if t.r[i].valid && t.r[i].addr == addr {
            found = true; pre = t.r[i].pre; t.r[i].seen = true;
            if t.r[i].privileged == ctx.privileged { priv_ok = true; }
        }
        i += 1;
    }
    if !found { t.extra_read = true; pre = kani::any(); } else if !priv_ok { t.bad_priv = true; }
    // the current word: written earlier in this step, the PSR port, else the pre-state word
    let mut cur = pre;
    if addr < 0xFE00 {
        let mut j = 0;
        while j < NW { if t.w[j].valid && t.w[j].seen && t.w[j].addr == addr { cur = t.w[j].written; } j += 1; }
    } else if addr == PSR_ADDR { cur = Word::new_init(s.psr.get()); }
    Ok(cur)
}
/// Contract stub of `Simulator::write_mem` for the default internal-register map.
pub(crate) fn contract_write_mem(s: &mut Simulator, addr: u16, data: Word, ctx: MemAccessCtx) -> Result<(), SimErr> {
    if !ctx.privileged && !user_range(addr) { return Err(SimErr::AccessViolation); }
    if ctx.strict && !data.is_init() { return Err(if addr >= 0xFE00 { SimErr::StrictIOSetUninit } else { SimErr::StrictMemSetUninit }); }
    if addr == PSR_ADDR { s.psr.set(data.get()); }
    else if addr == MCR_ADDR { s.mcr.store((data.get() as i16) < 0, std::sync::atomic::Ordering::Relaxed); }
    let t = tab();
    if !(ctx.track_access && ctx.io_effects) { t.untracked = true; }
    if t.n_writes < 200 { t.n_writes += 1; }
    let mut found = false; let mut priv_ok = false;
    let mut j = 0;
    while j < NW {
        let e = t.w[j];
        if e.valid && e.addr == addr && (data == e.val || (e.alt && data == Word::new_init(e.val.get().wrapping_add(1)))) {
            found = true; t.w[j].seen = true; t.w[j].written = data;
            if e.privileged == ctx.privileged { priv_ok = true; }
        }
        j += 1;
    }
    if !found { t.extra_write = true; } else if !priv_ok { t.bad_priv = true; }
    Ok(())
}

/// Contract stub of `DeviceHandler::poll_interrupt`: any pending vectored request or none
/// (its own contract -- highest priority wins -- is obligation K.device.poll_arbitration_*).
pub(crate) static mut PENDING: Option<(u8, u8)> = None;
pub(crate) static mut POLLS: u32 = 0;
pub(crate) fn contract_poll(_d: &mut DeviceHandler) -> Option<device::Interrupt> {
    unsafe { POLLS += 1; PENDING.map(|(v, p)| device::Interrupt::vectored(v, p)) }
}

// =================================================================================================
// The ISA reference (Appendix A of DESIGN.md).  Written from Patt & Patel App. A; shares no code
// with sim.rs.  It runs on the pre-state and fills the access table.

pub(crate) mod isa {
    use super::{Table, Word, RSlot, WSlot, NR, NW};

    #[derive(Clone, Copy, PartialEq, Eq)]
    pub(crate) enum Outcome { Done, Halt, ErrPrivilege, ErrIllegal, ErrAccess }
    #[derive(Clone, Copy)]
    pub(crate) struct St { pub r: [u16; 8], pub pc: u16, pub psr: u16, pub ssp: u16, pub depth: u64 }
    pub(crate) struct Ref {
        pub st: St,
        pub out: Outcome,
        /// an instruction was fetched, executed and completed normally (the instruction counter advances)
        pub completed: bool,
        /// an interrupt / trap / exception entry sequence ran (CC afterwards is unconstrained)
        pub entered: bool,
        /// the faulting/halting instruction's address when `out` is not Done
        pub fault_pc: u16,
        /// the value an exception entry pushed as PC may be fault_pc or fault_pc + 1
        pub exc_entry: bool,
        /// a corner the reference does not constrain was hit
        pub unconstrained: bool,
        /// the instruction word, when one was fetched
        pub fetched: Option<u16>,
        /// the frame this step enters: (calling / interrupted / faulting instruction's address, subroutine start or
        /// vector-table address, kind: 0 subroutine, 1 trap, 2 interrupt, 9 exception entry (kind not constrained))
        pub frame: Option<(u16, u16, u8)>,
    }
    pub(crate) fn user(psr: u16) -> bool { (psr >> 15) != 0 }
    pub(crate) fn prio(psr: u16) -> u16 { (psr >> 8) & 7 }
    fn sext(v: u16, bits: u32) -> u16 { let sh = 16 - bits; (((v << sh) as i16) >> sh) as u16 }
    fn cc_of(v: u16) -> u16 { if v == 0 { 0b010 } else if (v as i16) < 0 { 0b100 } else { 0b001 } }
    fn set_cc(psr: u16, v: u16) -> u16 { (psr & 0xFFF8) | cc_of(v) }
    /// value stored by a write to the memory-mapped PSR (this machine's definition of the port)
    pub(crate) fn psr_port(d: u16) -> u16 { let cc = d & 7; let cc = if cc == 1 || cc == 2 || cc == 4 { cc } else { 2 }; (d & 0x8700) | cc }
    fn in_user_space(a: u16) -> bool { a >= 0x3000 && a < 0xFE00 }

    pub(crate) struct Ctx<'a> { pub t: &'a mut Table, pub ignore_privilege: bool, pub rw: [Word; 8] }
    impl<'a> Ctx<'a> {
        fn allowed(&self, st: &St, a: u16) -> bool { !user(st.psr) || self.ignore_privilege || in_user_space(a) }
        fn privileged(&self, st: &St) -> bool { !user(st.psr) || self.ignore_privilege }
        /// pre-state word at `a`: what the previous step of a two-step obligation left there, the word
        /// already chosen for the same address in an earlier slot, else an arbitrary word
        fn pre_of(&mut self, slot: usize, a: u16) -> Word {
            let mut j = 0;
            while j < NW { if self.t.base[j].0 && self.t.base[j].1 == a && a < 0xFE00 { return self.t.base[j].2; } j += 1; }
            let mut i = 0;
            while i < NR { if i < slot && self.t.r[i].valid && self.t.r[i].addr == a { return self.t.r[i].pre; } i += 1; }
            let w: Word = if a == 0xFFFE { Word::new_init((kani::any::<bool>() as u16) << 15) } else { kani::any() };
            if self.t.all_init { kani::assume(w.is_init()); }
            w
        }
        fn read(&mut self, r: &mut Ref, slot: usize, a: u16) -> u16 {
            let pre = self.pre_of(slot, a);
            let p = self.privileged(&r.st);
            self.t.r[slot] = RSlot { valid: true, addr: a, pre, privileged: p, seen: false };
            let mut v = pre.get();
            if a < 0xFE00 {
                let mut j = 0;
                while j < NW { if self.t.w[j].valid && self.t.w[j].addr == a { v = self.t.w[j].val.get(); } j += 1; }
            } else if a == 0xFFFC { v = r.st.psr; }
            v
        }
        fn write(&mut self, r: &mut Ref, slot: usize, a: u16, val: Word, alt: bool) {
            let p = self.privileged(&r.st);
            self.t.w[slot] = WSlot { valid: true, addr: a, val, alt, privileged: p, seen: false, written: val };
            if a == 0xFFFC { r.st.psr = psr_port(val.get()); }
        }
    }

    /// entry sequence shared by TRAP, interrupts and (real traps) exceptions; `rs` = first free read slot
    fn entry(r: &mut Ref, c: &mut Ctx, rs: usize, table_addr: u16, pushed_pc: u16, new_prio: Option<u16>) {
        r.entered = true;
        let old_psr = r.st.psr;
        if user(r.st.psr) { let t = r.st.ssp; r.st.ssp = r.st.r[6]; r.st.r[6] = t; }
        r.st.psr &= 0x7FFF; // supervisor
        let sp = r.st.r[6];
        r.st.r[6] = sp.wrapping_sub(2);
        // corners left unconstrained: a stack push that lands on the PSR port, and an exception entry
        // whose pushed PC (either of two values) is itself the vector-table entry read next
        if sp.wrapping_sub(1) == 0xFFFC || sp.wrapping_sub(2) == 0xFFFC { r.unconstrained = true; }
        if r.exc_entry && (sp.wrapping_sub(2) == table_addr) { r.unconstrained = true; }
        c.write(r, 0, sp.wrapping_sub(1), Word::new_init(old_psr), false);
        c.write(r, 1, sp.wrapping_sub(2), Word::new_init(pushed_pc), r.exc_entry);
        if let Some(p) = new_prio { r.st.psr = (r.st.psr & 0xF8FF) | ((p & 7) << 8); }
        let target = c.read(r, rs, table_addr);
        r.st.pc = target;
        r.st.depth = r.st.depth.wrapping_add(1);
        r.frame = Some((r.fault_pc, table_addr, if r.exc_entry { 9 } else if new_prio.is_some() { 2 } else { 1 }));
    }
    fn exception(r: &mut Ref, c: &mut Ctx, rs: usize, real_traps: bool, vect: u16, out: Outcome, fault_pc: u16) {
        r.fault_pc = fault_pc;
        if real_traps { r.exc_entry = true; entry(r, c, rs, vect, fault_pc, None); }
        else { r.out = out; }
    }

    /// One step of the LC-3 from `st0`; `pending` is the request the devices present at this boundary.
    pub(crate) fn step(st0: St, rw: [Word; 8], t: &mut Table, real_traps: bool, ignore_privilege: bool, pending: Option<(u8, u8)>) -> Ref {
        let mut r = Ref { st: st0, out: Outcome::Done, completed: false, entered: false, fault_pc: st0.pc, exc_entry: false,
                          unconstrained: false, fetched: None, frame: None };
        let mut c = Ctx { t, ignore_privilege, rw };
        // 0. interrupt, only at the instruction boundary and only above the current priority
        if let Some((v, p)) = pending {
            let p = if p > 7 { 7 } else { p } as u16;
            if p > prio(r.st.psr) {
                // vectors x00..x02 of the interrupt table belong to the exceptions; a device presenting
                // them under virtual traps is outside what the reference constrains
                if !real_traps && v <= 2 { r.unconstrained = true; return r; }
                let pc = r.st.pc;
                entry(&mut r, &mut c, 0, 0x100 + v as u16, pc, Some(p));
                return r;
            }
        }
        let pc0 = r.st.pc;
        // 1. fetch
        if !c.allowed(&r.st, pc0) { exception(&mut r, &mut c, 0, real_traps, 0x102, Outcome::ErrAccess, pc0); return r; }
        let w = c.read(&mut r, 0, pc0);
        r.fetched = Some(w);
        let op = w >> 12;
        // 2. decode
        let canonical = match op {
            0b0001 | 0b0101 => (w & 0x20) != 0 || (w & 0x18) == 0,
            0b0100 => (w & 0x800) != 0 || (w & 0x0E3F) == 0,
            0b1000 => (w & 0x0FFF) == 0,
            0b1001 => (w & 0x3F) == 0x3F,
            0b1100 => (w & 0x0E3F) == 0,
            0b1101 => false,
            0b1111 => (w & 0x0F00) == 0,
            _ => true,
        };
        if !canonical { exception(&mut r, &mut c, 1, real_traps, 0x101, Outcome::ErrIllegal, pc0); return r; }
        let pc1 = pc0.wrapping_add(1);
        r.st.pc = pc1;
        let dr = ((w >> 9) & 7) as usize;
        let sr1 = ((w >> 6) & 7) as usize;
        let sr2 = (w & 7) as usize;
        let pco9 = pc1.wrapping_add(sext(w & 0x1FF, 9));
        match op {
            0b0000 => { if ((w >> 9) & 7) & (r.st.psr & 7) != 0 { r.st.pc = pco9; } }
            0b0001 | 0b0101 => {
                let b = if w & 0x20 != 0 { sext(w & 0x1F, 5) } else { r.st.r[sr2] };
                let v = if op == 1 { r.st.r[sr1].wrapping_add(b) } else { r.st.r[sr1] & b };
                r.st.r[dr] = v; r.st.psr = set_cc(r.st.psr, v);
            }
            0b1001 => { let v = !r.st.r[sr1]; r.st.r[dr] = v; r.st.psr = set_cc(r.st.psr, v); }
            0b1110 => { r.st.r[dr] = pco9; }
            0b0010 | 0b0110 => {
                let ea = if op == 0b0110 { r.st.r[sr1].wrapping_add(sext(w & 0x3F, 6)) } else { pco9 };
                if !c.allowed(&r.st, ea) { exception(&mut r, &mut c, 1, real_traps, 0x102, Outcome::ErrAccess, pc0); return r; }
                let v = c.read(&mut r, 1, ea);
                r.st.r[dr] = v; r.st.psr = set_cc(r.st.psr, v);
            }
            0b1010 => {
                if !c.allowed(&r.st, pco9) { exception(&mut r, &mut c, 1, real_traps, 0x102, Outcome::ErrAccess, pc0); return r; }
                let ea = c.read(&mut r, 1, pco9);
                if !c.allowed(&r.st, ea) { exception(&mut r, &mut c, 2, real_traps, 0x102, Outcome::ErrAccess, pc0); return r; }
                let v = c.read(&mut r, 2, ea);
                r.st.r[dr] = v; r.st.psr = set_cc(r.st.psr, v);
            }
            0b0011 | 0b0111 => {
                let ea = if op == 0b0111 { r.st.r[sr1].wrapping_add(sext(w & 0x3F, 6)) } else { pco9 };
                if !c.allowed(&r.st, ea) { exception(&mut r, &mut c, 1, real_traps, 0x102, Outcome::ErrAccess, pc0); return r; }
                let v = c.rw[dr];
                c.write(&mut r, 0, ea, v, false);
            }
            0b1011 => {
                if !c.allowed(&r.st, pco9) { exception(&mut r, &mut c, 1, real_traps, 0x102, Outcome::ErrAccess, pc0); return r; }
                let ea = c.read(&mut r, 1, pco9);
                if !c.allowed(&r.st, ea) { exception(&mut r, &mut c, 2, real_traps, 0x102, Outcome::ErrAccess, pc0); return r; }
                let v = c.rw[dr];
                c.write(&mut r, 0, ea, v, false);
            }
            0b0100 => {
                let target = if w & 0x800 != 0 { pc1.wrapping_add(sext(w & 0x7FF, 11)) } else { r.st.r[sr1] };
                r.st.r[7] = pc1; r.st.pc = target; r.st.depth = r.st.depth.wrapping_add(1);
                r.frame = Some((pc0, target, 0));
            }
            0b1100 => { r.st.pc = r.st.r[sr1]; if sr1 == 7 { r.st.depth = r.st.depth.saturating_sub(1); } }
            0b1111 => {
                let v = w & 0xFF;
                if !real_traps && v == 0x25 { r.out = Outcome::Halt; r.st.pc = pc0; return r; }
                entry(&mut r, &mut c, 1, v, pc1, None);
            }
            0b1000 => {
                if user(r.st.psr) && !ignore_privilege { exception(&mut r, &mut c, 1, real_traps, 0x100, Outcome::ErrPrivilege, pc0); return r; }
                let sp = r.st.r[6];
                let npc = c.read(&mut r, 1, sp);
                let npsr = c.read(&mut r, 2, sp.wrapping_add(1));
                r.st.r[6] = sp.wrapping_add(2);
                r.st.pc = npc; r.st.psr = npsr;
                if user(npsr) { let t = r.st.ssp; r.st.ssp = r.st.r[6]; r.st.r[6] = t; }
                r.st.depth = r.st.depth.saturating_sub(1);
            }
            _ => {}
        }
        r.completed = true;
        r
    }
}

// =================================================================================================
// L2: one step of the real code against the reference

#[derive(Clone, Copy)]
pub(crate) enum Got { Ok, Err(u8) }
fn err_code(e: &SimErr) -> u8 {
    match e {
        SimErr::IllegalOpcode => 1, SimErr::InvalidInstrFormat => 2, SimErr::PrivilegeViolation => 3, SimErr::AccessViolation => 4,
        SimErr::UnresolvedExternal(_) => 5, SimErr::Interrupt(_) => 6,
        SimErr::StrictRegSetUninit => 10, SimErr::StrictMemSetUninit => 11, SimErr::StrictIOSetUninit => 12, SimErr::StrictJmpAddrUninit => 13,
        SimErr::StrictSRAddrUninit => 14, SimErr::StrictMemAddrUninit => 15, SimErr::StrictPCCurrUninit => 16, SimErr::StrictPCNextUninit => 17,
        SimErr::StrictPSRSetUninit => 18,
    }
}
fn is_strict_err(c: u8) -> bool { c >= 10 }

fn eq8(a: &[u16; 8], b: &[u16; 8]) -> bool { let mut i = 0; let mut ok = true; while i < 8 { if a[i] != b[i] { ok = false; } i += 1; } ok }
fn data(r: &[Word; 8]) -> [u16; 8] { [r[0].get(), r[1].get(), r[2].get(), r[3].get(), r[4].get(), r[5].get(), r[6].get(), r[7].get()] }
fn st_of(sc: &Scalars) -> isa::St { isa::St { r: data(&sc.r), pc: sc.pc, psr: sc.psr, ssp: sc.ssp.get(), depth: sc.depth } }
fn taken(pend: Option<(u8, u8)>, psr: u16) -> bool { match pend { Some((_, p)) => (if p > 7 { 7 } else { p }) as u16 > isa::prio(psr), None => false } }

/// Native replay of a counterexample (`cargo kani playback` with --cfg verif_native; never compiled into a CBMC run):
/// contract stubs are not applied there, so the real accessors run on a real machine.  The pre-state memory
/// function chosen by the reference is installed into the real memory array, the default register map is
/// mapped, and a pending request is presented by a real interrupt source.
#[cfg(verif_native)]
fn native_install(sim: &mut Simulator, pend: Option<(u8, u8)>) {
    sim.ireg_mmap = InternalRegister::default_mmap();
    let t = tab();
    let mut i = 0;
    while i < NR {
        if t.r[i].valid {
            let a = t.r[i].addr;
            sim.mem[a] = t.r[i].pre;
            if a == MCR_ADDR { sim.mcr.store(t.r[i].pre.get() & 0x8000 != 0, std::sync::atomic::Ordering::Relaxed); }
        }
        i += 1;
    }
    if let Some((v, p)) = pend {
        let _ = sim.device_handler.add_device(device::InterruptFromFn::new(move || Some(device::Interrupt::vectored(v, p))), &[]);
    }
}
/// Native replay: the real step's memory writes, read back from the real array, are those the ISA prescribes.
#[cfg(verif_native)]
fn native_check_writes(sim: &Simulator) {
    let t = tab();
    let mut j = 0;
    while j < NW {
        let e = t.w[j];
        if e.valid && e.addr < 0xFE00 {
            let got = sim.mem[e.addr];
            assert!(got == e.val || (e.alt && got == Word::new_init(e.val.get().wrapping_add(1))), "C08.access (native replay): memory holds the word the ISA prescribes at every written address");
        }
        j += 1;
    }
}

/// The opcode classes the step obligations are split into (one harness each, run in parallel).
#[derive(Clone, Copy, PartialEq, Eq)]
enum Class { Alu, Load, Store, Control, Trap, Rti, Irq, Bad }
fn class_of(w: u16) -> Class {
    match w >> 12 {
        0b0001 | 0b0101 | 0b1001 | 0b1110 => Class::Alu,
        0b0010 | 0b1010 | 0b0110 => Class::Load,
        0b0011 | 0b1011 | 0b0111 => Class::Store,
        0b0000 | 0b0100 | 0b1100 => Class::Control,
        0b1111 => Class::Trap,
        0b1000 => Class::Rti,
        _ => Class::Bad,
    }
}

/// C08 / C09 / C10 / C16 / C27 / C28: run the real `step_in` once from an arbitrary state and compare
/// with `isa::step`.  `class` selects the fetched opcode class (Irq = a request above the current
/// priority is pending; every other class has no such request; a step whose fetch is denied belongs to Bad).
fn step_vs_isa(class: Class, real_traps: bool) {
    let fl = flags(false, real_traps, kani::any());
    let mut sim = any_sim(fl);
    kani::assume(sim.frame_stack.len() < u64::MAX);
    let pre = scalars(&sim);
    // devices: an arbitrary pending request
    let pend: Option<(u8, u8)> = kani::any();
    unsafe { PENDING = pend; POLLS = 0; TAB = Table::new(); frame::verif_kani::PUSHED = [None; 2]; frame::verif_kani::PUSHED_N = 0; }
    // ---- the reference, on the pre-state; fills the access table
    let rf = isa::step(st_of(&pre), pre.r, tab(), real_traps, fl.ignore_privilege, pend);
    let is_irq = taken(pend, pre.psr);
    if class == Class::Irq { kani::assume(is_irq); } else {
        kani::assume(!is_irq);
        let c = match rf.fetched { Some(w) => class_of(w), None => Class::Bad };
        kani::assume(c == class);
    }
    if rf.unconstrained { return; }
    #[cfg(verif_native)]
    native_install(&mut sim, pend);
    // a cell of the real 64K array must never be touched behind the access functions' back
    let probe: u16 = kani::any();
    let cell0 = sim.mem[probe];

    // ---- the real step (`step`; `step_in` = clear the observer + `step` + "a halt is not an error": obligation step_in_contract)
    unsafe { CLEARS = 0; }
    let res = sim.step();
    let (got, halted) = match &res { Ok(()) => (Got::Ok, false), Err(StepBreak::Halt) => (Got::Ok, true), Err(StepBreak::Err(e)) => (Got::Err(err_code(e)), false) };
    #[cfg(not(verif_native))]
    assert!(unsafe { CLEARS } == 0, "C28.clear: a step never clears the access observer (only the entry points step_in / run_while do, once)");
    assert!(halted == matches!(rf.out, isa::Outcome::Halt), "C08.halt: a halt is signalled exactly for a virtual HALT");
    let post = scalars(&sim);
    // C16: the faulting-address query never panics
    let fpc = sim.prefetch_pc();
    #[cfg(not(verif_native))]
    {
        assert!(sim.mem[probe] == cell0, "L2.frame: memory is touched only through read_mem/write_mem");
        assert!(unsafe { POLLS } == 1, "C10.poll: devices are polled exactly once per step");
    }
    #[cfg(verif_native)]
    { let _ = (probe, cell0); }

    // vacuity guards: the outcomes this class is about must be reachable behind the assumptions above
    let (exp_completed, exp_entered, exp_err) = (class != Class::Irq && class != Class::Bad, class == Class::Trap || class == Class::Irq || real_traps, !real_traps && class != Class::Irq);
    kani::cover!(!exp_completed || rf.completed, "completed instruction reachable");
    kani::cover!(!exp_entered || rf.entered, "entry sequence reachable");
    kani::cover!(!exp_err || !matches!(rf.out, isa::Outcome::Done), "halt or error outcome reachable");

    // ---- outcome
    match rf.out {
        isa::Outcome::Done | isa::Outcome::Halt => assert!(matches!(got, Got::Ok), "C08.outcome: the step succeeds exactly when the ISA defines a result"),
        isa::Outcome::ErrPrivilege => assert!(matches!(got, Got::Err(3)), "C09.outcome: RTI in user mode is a privilege violation"),
        isa::Outcome::ErrIllegal => assert!(matches!(got, Got::Err(1) | Got::Err(2)), "C08.outcome: non-canonical word is an illegal-opcode / invalid-format error"),
        isa::Outcome::ErrAccess => assert!(matches!(got, Got::Err(4)), "C09.outcome: access outside user space in user mode is an access violation"),
    }
    // ---- registers, saved SP, frame depth
    assert!(eq8(&data(&post.r), &rf.st.r), "C08.regs: registers as the ISA prescribes");
    assert!(post.ssp.get() == rf.st.ssp, "C08.ssp: saved stack pointer as the ISA prescribes");
    assert!(post.depth == rf.st.depth, "C27.depth: frame depth = calls/traps/interrupts entered minus returns, saturating");
    // ---- the frame entered (C27: caller = the calling / interrupted instruction, callee = subroutine start or vector, kind)
    let (pushed, pushed_n) = unsafe { (frame::verif_kani::PUSHED, frame::verif_kani::PUSHED_N) };
    #[cfg(not(verif_native))]
    match rf.frame {
        None => assert!(pushed_n == 0, "C27.frame: a frame is entered only by JSR/JSRR, TRAP, interrupts and exception entries"),
        Some((caller, callee, kind)) => {
            assert!(pushed_n == 1, "C27.frame: exactly one frame is entered");
            let (c0, c1, k) = pushed[0].unwrap();
            assert!(c0 == caller, "C27.frame: the frame holds the calling instruction's address (the interrupted instruction's, for interrupts)");
            assert!(c1 == callee, "C27.frame: the frame holds the subroutine start or the trap/interrupt vector");
            assert!(kind == 9 || k == kind, "C27.frame: the frame holds the call kind");
        }
    }
    // ---- PSR (CC after an entry sequence is the simulator's own choice)
    let mask = if rf.entered { 0xFFF8 } else { 0xFFFF };
    assert!(post.psr & mask == rf.st.psr & mask, "C08.psr: privilege, priority and condition codes as the ISA prescribes");
    // ---- PC / faulting address
    match rf.out {
        isa::Outcome::Done => assert!(post.pc == rf.st.pc, "C08.pc: next PC as the ISA prescribes"),
        isa::Outcome::Halt => { assert!(post.pc == rf.st.pc && fpc == rf.fault_pc, "C08.halt: a virtual HALT leaves the PC at the HALT"); }
        _ => assert!(fpc == rf.fault_pc, "C08.fault: the error is reported with the faulting instruction's address"),
    }
    // ---- instruction counter
    // (whether a halted, failed or interrupt-entry step counts is the simulator's own choice: not constrained)
    if rf.completed { assert!(post.icount == pre.icount.wrapping_add(1), "C13.count: a completed instruction counts once"); }
    #[cfg(verif_native)]
    { let _ = (pushed, pushed_n); native_check_writes(&sim); }
    // ---- memory and I/O accesses: exactly the prescribed set (address, direction, privilege, data)
    #[cfg(not(verif_native))]
    {
    let t = tab();
    assert!(!t.extra_read, "C08.access: every read made is one the ISA prescribes (C09: none outside user space in user mode)");
    assert!(!t.extra_write, "C08.access: every write made is one the ISA prescribes (address and data)");
    assert!(!t.bad_priv, "C09.access: every access carries the privilege of the mode it is made in");
    assert!(!t.untracked, "C28.ctx: program accesses are tracked and effectful");
    assert!(t.all_seen(), "C08.access: every access the ISA prescribes is made");
    assert!(t.n_reads <= 4 && t.n_writes <= 2, "L2.frame: at most four reads and two writes per step");
    }
}

/// counting stub of `AccessObserver::clear` (its own contract -- forgets everything -- is K.observer.map)
pub(crate) static mut CLEARS: u32 = 0;
pub(crate) fn count_clear(_o: &mut observer::AccessObserver) { unsafe { CLEARS += 1; } }

macro_rules! step_harness {
    ($name:ident, $class:expr, $real:expr) => {
        #[kani::proof]
        #[kani::stub(std::hash::RandomState::new, stub_random_state)]
        #[kani::stub(<DeviceHandler as ExternalDevice>::poll_interrupt, contract_poll)]
        #[kani::stub(Simulator::read_mem, contract_read_mem)]
        #[kani::stub(Simulator::write_mem, contract_write_mem)]
        #[kani::stub(frame::FrameStack::push_frame, frame::verif_kani::contract_push_frame)]
        #[kani::stub(observer::AccessObserver::clear, count_clear)]
        #[kani::unwind(9)]
        fn $name() { step_vs_isa($class, $real) }
    };
}
step_harness!(step_alu_virtual, Class::Alu, false);
step_harness!(step_alu_real, Class::Alu, true);
step_harness!(step_load_virtual, Class::Load, false);
step_harness!(step_load_real, Class::Load, true);
step_harness!(step_store_virtual, Class::Store, false);
step_harness!(step_store_real, Class::Store, true);
step_harness!(step_control_virtual, Class::Control, false);
step_harness!(step_control_real, Class::Control, true);
step_harness!(step_trap_virtual, Class::Trap, false);
step_harness!(step_trap_real, Class::Trap, true);
step_harness!(step_rti_virtual, Class::Rti, false);
step_harness!(step_rti_real, Class::Rti, true);
step_harness!(step_irq_virtual, Class::Irq, false);
step_harness!(step_irq_real, Class::Irq, true);
step_harness!(step_bad_virtual, Class::Bad, false);
step_harness!(step_bad_real, Class::Bad, true);

/// `step_in` against `step`'s contract: clears the observer exactly once, before the step; returns Ok for a
/// completed step and for a halt, and the step's error otherwise; changes nothing else.
static mut SI_CLEARS_AT_STEP: u32 = 99;
static mut SI_OUT: u8 = 0;
fn si_step(s: &mut Simulator) -> Result<(), StepBreak> {
    unsafe { SI_CLEARS_AT_STEP = CLEARS; }
    s.pc = s.pc.wrapping_add(1); // (the step's own effects: arbitrary; one visible change marks that it ran)
    match unsafe { SI_OUT } { 0 => Ok(()), 1 => Err(StepBreak::Halt), _ => Err(StepBreak::Err(SimErr::AccessViolation)) }
}
#[kani::proof]
#[kani::stub(std::hash::RandomState::new, stub_random_state)]
#[kani::stub(Simulator::step, si_step)]
#[kani::stub(observer::AccessObserver::clear, count_clear)]
#[kani::unwind(9)]
fn step_in_contract() {
    let mut sim = any_sim(flags(kani::any(), kani::any(), kani::any()));
    let s0 = scalars(&sim);
    let out: u8 = kani::any();
    kani::assume(out < 3);
    unsafe { SI_OUT = out; CLEARS = 0; SI_CLEARS_AT_STEP = 99; }
    let r = sim.step_in();
    unsafe {
        assert!(SI_CLEARS_AT_STEP >= 1 && SI_CLEARS_AT_STEP != 99 && CLEARS == SI_CLEARS_AT_STEP, "C28.clear: step_in clears the access observer before the step and not afterwards");
    }
    match out { 0 | 1 => assert!(r.is_ok(), "C13.step_in: a completed step and a halt are successes"),
                _ => assert!(matches!(r, Err(SimErr::AccessViolation)), "C13.step_in: the step's error is returned") }
    let s1 = scalars(&sim);
    assert!(s1.pc == s0.pc.wrapping_add(1) && s1.psr == s0.psr && s1.depth == s0.depth && s1.icount == s0.icount, "C13.step_in: exactly one step, nothing else");
}

// =================================================================================================
// L0 leaf contracts

/// PSR bit layout (privilege bit 15, priority bits 8..10, condition codes bits 0..2) and setters.
#[kani::proof]
fn psr_leaf() {
    let v: u16 = kani::any();
    let p = PSR(v);
    assert!(PSR::new().get() == 0x8002, "C08.psr: a new PSR is user mode, priority 0, CC z");
    assert!(p.get() == v, "C08.psr.get");
    assert!(p.privileged() == ((v & 0x8000) == 0), "C08.psr: bit 15 clear = supervisor");
    assert!(p.priority() as u16 == (v >> 8) & 7, "C08.psr: priority is bits 8..10");
    assert!(p.cc() as u16 == v & 7, "C08.psr: condition codes are bits 0..2");
    assert!(p.is_n() == (v & 4 != 0) && p.is_z() == (v & 2 != 0) && p.is_p() == (v & 1 != 0), "C08.psr: n/z/p flags");
    let d: u16 = kani::any();
    let mut q = PSR(v); q.set(d);
    assert!(q.get() == isa::psr_port(d), "C08.psr.set: keeps privilege/priority/CC bits of the data, CC forced one-hot (z otherwise)");
    let b: bool = kani::any();
    let mut q = PSR(v); q.set_privileged(b);
    assert!(q.get() == (v & 0x7FFF) | (((!b) as u16) << 15), "C08.psr.set_privileged: only bit 15 changes");
    let k: u8 = kani::any();
    let mut q = PSR(v); q.set_priority(k);
    assert!(q.get() == (v & 0xF8FF) | (((k & 7) as u16) << 8), "C08.psr.set_priority: only bits 8..10 change");
    let mut q = PSR(v); q.set_cc(k);
    let c = k & 7; let c = if c == 1 || c == 2 || c == 4 { c } else { 2 };
    assert!(q.get() == (v & 0xFFF8) | c as u16, "C08.psr.set_cc: only bits 0..2 change, one-hot");
    let mut q = PSR(v); q.set_cc_n(); assert!(q.get() == (v & 0xFFF8) | 4, "C08.psr.set_cc_n");
    let mut q = PSR(v); q.set_cc_z(); assert!(q.get() == (v & 0xFFF8) | 2, "C08.psr.set_cc_z");
    let mut q = PSR(v); q.set_cc_p(); assert!(q.get() == (v & 0xFFF8) | 1, "C08.psr.set_cc_p");
}

/// Simulator::set_cc, default_mem_ctx, prefetch_pc, offset arithmetic of the PC.
#[kani::proof]
#[kani::stub(std::hash::RandomState::new, stub_random_state)]
#[kani::unwind(9)]
fn sim_leaf() {
    let fl = flags(kani::any(), kani::any(), kani::any());
    let mut sim = any_sim(fl);
    let psr0 = sim.psr.get();
    let ctx = sim.default_mem_ctx();
    assert!(ctx.privileged == (((psr0 & 0x8000) == 0) || fl.ignore_privilege), "C09.ctx: privileged iff supervisor mode or privilege checks disabled");
    assert!(ctx.strict == fl.strict && ctx.io_effects && ctx.track_access, "C28.ctx: program accesses are effectful and tracked");
    let o = MemAccessCtx::omnipotent();
    assert!(o.privileged && !o.strict && !o.io_effects && !o.track_access, "C28.ctx: the omnipotent context is untracked and effect-free");
    let v: u16 = kani::any();
    sim.set_cc(v);
    let want = if v == 0 { 2 } else if v & 0x8000 != 0 { 4 } else { 1 };
    assert!(sim.psr.get() == (psr0 & 0xFFF8) | want, "C08.set_cc: n/z/p from the sign of the 16-bit result");
    // C16: the faulting-address query is total
    let (pc, pf): (u16, bool) = (kani::any(), kani::any());
    sim.pc = pc; sim.prefetch = pf;
    assert!(sim.prefetch_pc() == if pf { pc } else { pc.wrapping_sub(1) }, "C16.prefetch_pc: PC of the executing instruction, wrapping");
}

/// in_alloca: membership in the sorted, disjoint list of loaded blocks (C14 exemptions).
#[kani::proof]
#[kani::stub(std::hash::RandomState::new, stub_random_state)]
#[kani::unwind(9)]
fn in_alloca_contract() {
    let mut sim = any_sim(flags(true, false, false));
    let n: usize = kani::any();
    kani::assume(n <= 2);
    let (s0, l0, s1, l1): (u16, u16, u16, u16) = (kani::any(), kani::any(), kani::any(), kani::any());
    // invariant established by load_obj_file: sorted by start, non-empty, disjoint
    kani::assume(l0 > 0 && l1 > 0 && (s0 as u32 + l0 as u32) <= 0x10000 && (s1 as u32 + l1 as u32) <= 0x10000);
    kani::assume(n < 2 || (s0 as u32 + l0 as u32) <= s1 as u32);
    sim.alloca = if n == 0 { Box::new([]) } else if n == 1 { Box::new([(s0, l0)]) } else { Box::new([(s0, l0), (s1, l1)]) };
    let a: u16 = kani::any();
    let inside = |s: u16, l: u16| (a as u32) >= s as u32 && (a as u32) < s as u32 + l as u32;
    let want = (n >= 1 && inside(s0, l0)) || (n >= 2 && inside(s1, l1));
    kani::cover!(want, "address inside a block reachable");
    assert!(sim.in_alloca(a) == want, "C14.in_alloca: true exactly for addresses inside a loaded block");
}

/// InternalRegister::read / write for each kind (C32: what a mapped port reaches).
#[kani::proof]
#[kani::stub(std::hash::RandomState::new, stub_random_state)]
#[kani::unwind(9)]
fn internal_register_contract() {
    let mut sim = any_sim(flags(false, false, false));
    let s0 = scalars(&sim);
    let k: u8 = kani::any();
    kani::assume(k < 4);
    let reg = match k { 0 => InternalRegister::PC, 1 => InternalRegister::PSR, 2 => InternalRegister::MCR, _ => InternalRegister::SavedSP };
    let mcr0: bool = kani::any();
    sim.mcr.store(mcr0, std::sync::atomic::Ordering::Relaxed);
    let got = reg.read(&mut sim);
    let want = match k { 0 => s0.pc, 1 => s0.psr, 2 => (mcr0 as u16) << 15, _ => s0.ssp.get() };
    assert!(got == want, "C32.ireg.read: reads the register it names");
    assert!(scalars(&sim) == s0, "C32.ireg.read: reading changes nothing");
    let d: u16 = kani::any();
    reg.write(&mut sim, d);
    let s1 = scalars(&sim);
    match k {
        0 => assert!(s1.pc == d && s1.psr == s0.psr && s1.ssp == s0.ssp, "C32.ireg.write: PC"),
        1 => assert!(s1.psr == isa::psr_port(d) && s1.pc == s0.pc && s1.ssp == s0.ssp, "C32.ireg.write: PSR"),
        2 => assert!(sim.mcr.load(std::sync::atomic::Ordering::Relaxed) == (d & 0x8000 != 0) && s1 == s0, "C32.ireg.write: MCR bit 15"),
        _ => assert!(s1.ssp == Word::new_init(d) && s1.pc == s0.pc && s1.psr == s0.psr, "C32.ireg.write: saved SP"),
    }
    let mut i = 0;
    while i < 8 { assert!(s1.r[i] == s0.r[i], "C32.ireg.write: general registers untouched"); i += 1; }
}

// =================================================================================================
// L1: the real read_mem / write_mem bodies against the contract the L2 stubs implement.
// Device and observer are replaced by recording stubs (their own contracts: C32 dispatch, observer map).

static mut DEV_CALLS: u32 = 0;
static mut DEV_ARGS: (u16, u16, bool) = (0, 0, false);
static mut DEV_RET_R: Option<u16> = None;
static mut DEV_RET_W: bool = false;
fn rec_io_read(_d: &mut DeviceHandler, addr: u16, eff: bool) -> Option<u16> {
    let r: Option<u16> = kani::any();
    unsafe { DEV_CALLS += 1; DEV_ARGS = (addr, 0, eff); DEV_RET_R = r; }
    r
}
fn rec_io_write(_d: &mut DeviceHandler, addr: u16, data: u16) -> bool {
    let r: bool = kani::any();
    unsafe { DEV_CALLS += 1; DEV_ARGS = (addr, data, false); DEV_RET_W = r; }
    r
}
/// what the observer was told: number of calls, union of the flags recorded for the accessed address, and whether
/// any other address was mentioned (how the flags are split over calls is not constrained)
static mut OBS_N: usize = 0;
static mut OBS_UNION: u8 = 0;
static mut OBS_OTHER: bool = false;
static mut OBS_ADDR: u16 = 0;
fn rec_observe(_o: &mut observer::AccessObserver, addr: u16, set: AccessSet) {
    let bits = (set.read() as u8) | ((set.written() as u8) << 1) | ((set.modified() as u8) << 2);
    unsafe { OBS_N += 1; if addr == OBS_ADDR { OBS_UNION |= bits; } else { OBS_OTHER = true; } }
}
fn any_ctx() -> MemAccessCtx { MemAccessCtx { privileged: kani::any(), strict: kani::any(), io_effects: kani::any(), track_access: kani::any() } }

/// which internal-register map the L1 obligation runs with
#[derive(Clone, Copy, PartialEq, Eq)]
enum Map { Empty, Default }
fn l1_sim(map: Map) -> Simulator {
    let mut sim = any_sim(flags(kani::any(), kani::any(), kani::any()));
    if map == Map::Default { sim.ireg_mmap = InternalRegister::default_mmap(); }
    sim
}

fn l1_read(map: Map) {
    let mut sim = l1_sim(map);
    let mcr0: bool = kani::any();
    sim.mcr.store(mcr0, std::sync::atomic::Ordering::Relaxed);
    let s0 = scalars(&sim);
    let addr: u16 = kani::any();
    let ctx = any_ctx();
    let probe: u16 = kani::any();
    let (cell0, probe0) = (sim.mem[addr], sim.mem[probe]);
    unsafe { OBS_ADDR = addr; }
    let r = sim.read_mem(addr, ctx);
    let (calls, args, ret) = unsafe { (DEV_CALLS, DEV_ARGS, DEV_RET_R) };
    let (obs_n, obs_union, obs_other) = unsafe { (OBS_N, OBS_UNION, OBS_OTHER) };
    assert!(scalars(&sim) == s0, "L1.read: registers, PC, PSR, saved SP, counters unchanged");
    if probe != addr { assert!(sim.mem[probe] == probe0, "L1.read: every other memory cell unchanged"); }
    let denied = !ctx.privileged && !user_range(addr);
    kani::cover!(denied, "denied read reachable");
    kani::cover!(!denied && addr >= 0xFE00, "I/O read reachable");
    if denied {
        assert!(matches!(r, Err(SimErr::AccessViolation)), "C09.read: user-mode access outside x3000..xFDFF is an access violation");
        assert!(sim.mem[addr] == cell0 && calls == 0 && obs_n == 0, "C09.read: a denied read reaches neither memory, devices nor the observer");
        return;
    }
    let w = match r { Ok(w) => w, Err(_) => { assert!(false, "C09.read: every other read succeeds"); return; } };
    // (C28 speaks about non-I/O addresses for reads; what is recorded for a device-page read is not constrained)
    if ctx.track_access { if addr < 0xFE00 { assert!(obs_n >= 1 && obs_union == 1 && !obs_other, "C28.read: a tracked read marks exactly (addr, READ)"); } }
    else { assert!(obs_n == 0, "C28.read: an untracked read is not recorded"); }
    if addr < 0xFE00 {
        assert!(w == cell0 && sim.mem[addr] == cell0 && calls == 0, "L1.read: a memory read returns the cell and reaches no device");
    } else if map == Map::Default && addr == PSR_ADDR {
        assert!(w == Word::new_init(s0.psr) && calls == 0, "C32.read: the PSR port reads the PSR, not a device");
    } else if map == Map::Default && addr == MCR_ADDR {
        assert!(w == Word::new_init((mcr0 as u16) << 15) && calls == 0, "C32.read: the MCR port reads the MCR, not a device");
    } else {
        assert!(calls == 1 && args.0 == addr && args.2 == ctx.io_effects, "C32.read: an unmapped I/O address reaches the device handler exactly once");
        match ret { Some(d) => assert!(w == Word::new_init(d) && sim.mem[addr] == w, "C32.read: the device's value is returned (and mirrored)"),
                    None => assert!(w == cell0 && sim.mem[addr] == cell0, "C32.read: no device answer -> the mirror cell, unchanged") }
    }
}
fn l1_write(map: Map) {
    let mut sim = l1_sim(map);
    let s0 = scalars(&sim);
    let addr: u16 = kani::any();
    let data: Word = kani::any();
    let ctx = any_ctx();
    let probe: u16 = kani::any();
    let (cell0, probe0) = (sim.mem[addr], sim.mem[probe]);
    unsafe { OBS_ADDR = addr; }
    let r = sim.write_mem(addr, data, ctx);
    let (calls, args, ret) = unsafe { (DEV_CALLS, DEV_ARGS, DEV_RET_W) };
    let (obs_n, obs_union, obs_other) = unsafe { (OBS_N, OBS_UNION, OBS_OTHER) };
    let s1 = scalars(&sim);
    if probe != addr { assert!(sim.mem[probe] == probe0, "L1.write: every other memory cell unchanged"); }
    let mut i = 0;
    while i < 8 { assert!(s1.r[i] == s0.r[i], "L1.write: general registers unchanged"); i += 1; }
    assert!(s1.pc == s0.pc && s1.ssp == s0.ssp && s1.depth == s0.depth && s1.icount == s0.icount, "L1.write: PC, saved SP, counters unchanged");
    let denied = !ctx.privileged && !user_range(addr);
    kani::cover!(denied, "denied write reachable");
    kani::cover!(!denied && addr >= 0xFE00 && r.is_ok(), "I/O write reachable");
    if denied {
        assert!(matches!(r, Err(SimErr::AccessViolation)), "C09.write: user-mode access outside x3000..xFDFF is an access violation");
        assert!(sim.mem[addr] == cell0 && calls == 0 && obs_n == 0 && s1.psr == s0.psr, "C09.write: a denied write leaves memory, devices, PSR and the observer untouched");
        return;
    }
    let observed_ok = |modified: bool| if ctx.track_access {
            obs_n >= 1 && !obs_other && obs_union == (if modified { 2 | 4 } else { 2 })
        } else { obs_n == 0 };
    if addr < 0xFE00 {
        assert!(calls == 0 && s1.psr == s0.psr, "L1.write: a memory write reaches no device and not the PSR");
        if ctx.strict && !data.is_init() {
            assert!(matches!(r, Err(SimErr::StrictMemSetUninit)) && sim.mem[addr] == cell0, "C14.write: strict rejects an uninitialized word, memory unchanged");
        } else {
            assert!(r.is_ok() && sim.mem[addr] == data, "L1.write: the cell holds exactly the word written");
            assert!(observed_ok(cell0 != data), "C28.write: WRITTEN always, MODIFIED exactly when the value changed, only if tracked");
        }
        return;
    }
    if ctx.strict && !data.is_init() {
        assert!(matches!(r, Err(SimErr::StrictIOSetUninit)), "C14.write: strict rejects an uninitialized word for I/O");
        assert!(sim.mem[addr] == cell0 && calls == 0 && obs_n == 0 && s1.psr == s0.psr, "C14.write: ... before any device or register is reached");
        return;
    }
    assert!(r.is_ok(), "L1.write: every other write succeeds");
    if map == Map::Default && addr == PSR_ADDR {
        assert!(calls == 0 && s1.psr == isa::psr_port(data.get()) && sim.mem[addr] == data, "C32.write: the PSR port writes the PSR, not a device");
    } else if map == Map::Default && addr == MCR_ADDR {
        assert!(calls == 0 && s1.psr == s0.psr && sim.mcr.load(std::sync::atomic::Ordering::Relaxed) == (data.get() & 0x8000 != 0), "C32.write: the MCR port writes the MCR, not a device");
    } else {
        assert!(calls == 1 && args.0 == addr && args.1 == data.get() && s1.psr == s0.psr, "C32.write: an unmapped I/O address reaches the device handler exactly once");
        if ret { assert!(sim.mem[addr] == data && observed_ok(cell0 != data), "C32.write: an accepted write is mirrored"); }
        else { assert!(sim.mem[addr] == cell0 && obs_n == 0, "C32.write: a write no device accepts leaves memory unchanged"); }
    }
}
macro_rules! l1_harness {
    ($name:ident, $f:ident, $map:expr, $unwind:literal) => {
        #[kani::proof]
        #[kani::stub(std::hash::RandomState::new, stub_random_state)]
        #[kani::stub(observer::AccessObserver::update_mem_accesses, rec_observe)]
        #[kani::stub(<DeviceHandler as ExternalDevice>::io_read, rec_io_read)]
        #[kani::stub(<DeviceHandler as ExternalDevice>::io_write, rec_io_write)]
        #[kani::unwind($unwind)]
        fn $name() { $f($map) }
    };
}
l1_harness!(l1_read_empty_map, l1_read, Map::Empty, 9);
l1_harness!(l1_write_empty_map, l1_write, Map::Empty, 9);
l1_harness!(l1_read_default_map, l1_read, Map::Default, 17);
l1_harness!(l1_write_default_map, l1_write, Map::Default, 17);


// =================================================================================================
// Relational obligations: two runs of the real step from the same state over the same memory
// function (the access table filled by the reference; the first run is checked against it by the
// step_* obligations, so the table is exactly what a lenient run touches).

#[derive(Clone, Copy)]
struct Effects { r_seen: [bool; NR], w_seen: [bool; NW], w_written: [Word; NW], clean: bool }
fn effects(t: &Table) -> Effects {
    let mut e = Effects { r_seen: [false; NR], w_seen: [false; NW], w_written: [W0; NW], clean: t.clean() };
    let mut i = 0; while i < NR { e.r_seen[i] = t.r[i].valid && t.r[i].seen; i += 1; }
    let mut j = 0; while j < NW { e.w_seen[j] = t.w[j].valid && t.w[j].seen; e.w_written[j] = t.w[j].written; j += 1; }
    e
}
/// the two runs made the same writes (address and word) and the same reads (what C12/C14 call memory and device effects)
fn same_effects(a: &Effects, b: &Effects) -> bool {
    let mut ok = a.clean && b.clean;
    let mut i = 0; while i < NR { if a.r_seen[i] != b.r_seen[i] { ok = false; } i += 1; }
    let mut j = 0; while j < NW { if a.w_seen[j] != b.w_seen[j] || (a.w_seen[j] && a.w_written[j] != b.w_written[j]) { ok = false; } j += 1; }
    ok
}
fn same_scalars(a: &Scalars, b: &Scalars) -> bool {
    let mut ok = a.pc == b.pc && a.psr == b.psr && a.ssp == b.ssp && a.depth == b.depth && a.icount == b.icount;
    let mut i = 0;
    while i < 8 { if a.r[i] != b.r[i] { ok = false; } i += 1; }
    ok
}
fn any_alloca() -> Box<[(u16, u16)]> {
    if kani::any() { Box::new([]) } else {
        let (s, l): (u16, u16) = (kani::any(), kani::any());
        kani::assume(l > 0 && (s as u32 + l as u32) <= 0x10000);
        Box::new([(s, l)])
    }
}

/// C14: strict mode only adds uninitialized-value errors (one step, any state).
fn strict_vs_lenient(real_traps: bool, all_init: bool) {
    let ign: bool = kani::any();
    let sc = any_scalars();
    kani::assume(sc.depth < u64::MAX);
    let pend: Option<(u8, u8)> = kani::any();
    let alloca = any_alloca();
    if all_init {
        let mut i = 0;
        while i < 8 { kani::assume(sc.r[i].is_init()); i += 1; }
        kani::assume(sc.ssp.is_init());
    }
    unsafe { PENDING = pend; TAB = Table::new(); TAB.all_init = all_init; }
    let rf = isa::step(st_of(&sc), sc.r, tab(), real_traps, ign, pend);
    if rf.unconstrained { return; }
    let mut a = sim_from(sc, flags(false, real_traps, ign));
    a.alloca = alloca.clone(); a.prefetch = false;
    let ra = a.step_in();
    let ea = effects(tab());
    tab().rewind();
    let mut b = sim_from(sc, flags(true, real_traps, ign));
    b.alloca = alloca; b.prefetch = false;
    // The strict next-PC check peeks at the memory array directly (initialization state only).  On a machine
    // whose memory is all initialized that cell is initialized too; the cell is the lenient run's next PC.
    if all_init { kani::assume(b.mem[scalars(&a).pc].is_init()); }
    let rb = b.step_in();
    let eb = effects(tab());
    let (sa, sb) = (scalars(&a), scalars(&b));
    kani::cover!(rb.is_ok(), "strict step succeeding reachable");
    kani::cover!(all_init || matches!(&rb, Err(e) if is_strict_err(err_code(e))), "strict error reachable");
    assert!(ea.clean, "L2.frame: the lenient run touches exactly what the ISA prescribes");
    match (&ra, &rb) {
        (_, Ok(())) => {
            assert!(ra.is_ok(), "C14.same: a step strict mode accepts is accepted without it");
            assert!(same_scalars(&sa, &sb), "C14.same: registers, PC, PSR, saved SP, frame depth and instruction count evolve exactly as without strict mode");
            assert!(same_effects(&ea, &eb), "C14.same: memory writes and memory/device reads are exactly those made without strict mode");
        }
        (Ok(()), Err(e)) => assert!(is_strict_err(err_code(e)), "C14.kind: a step that fails only under strict mode fails with a strict (uninitialized-value) error"),
        (Err(ea_), Err(eb_)) => assert!(is_strict_err(err_code(eb_)) || err_code(ea_) == err_code(eb_), "C14.kind: a failing step fails the same way, or with a strict error"),
    }
    if all_init {
        if let Err(e) = &rb { assert!(!is_strict_err(err_code(e)), "C14.init: with all registers and memory initialized strict mode reports no strict error"); }
    }
}

macro_rules! two_run_harness {
    ($name:ident, $body:expr) => {
        #[kani::proof]
        #[kani::stub(std::hash::RandomState::new, stub_random_state)]
        #[kani::stub(<DeviceHandler as ExternalDevice>::poll_interrupt, contract_poll)]
        #[kani::stub(Simulator::read_mem, contract_read_mem)]
        #[kani::stub(Simulator::write_mem, contract_write_mem)]
        #[kani::unwind(9)]
        fn $name() { $body }
    };
}
two_run_harness!(strict_vs_lenient_virtual, strict_vs_lenient(false, false));
two_run_harness!(strict_vs_lenient_real, strict_vs_lenient(true, false));
two_run_harness!(strict_all_init_virtual, strict_vs_lenient(false, true));
two_run_harness!(strict_all_init_real, strict_vs_lenient(true, true));

/// C12: real vs virtual traps from the same state: a step that neither halts nor raises an exception
/// under virtual traps is identical under real traps.  (What happens at HALT / exceptions under real
/// traps is the entry sequence proved by the step_*_real obligations of C08.)
fn real_vs_virtual() {
    let ign: bool = kani::any();
    let sc = any_scalars();
    kani::assume(sc.depth < u64::MAX);
    let pend: Option<(u8, u8)> = kani::any();
    unsafe { PENDING = pend; TAB = Table::new(); }
    let rf = isa::step(st_of(&sc), sc.r, tab(), false, ign, pend);
    if rf.unconstrained { return; }
    let mut a = sim_from(sc, flags(false, false, ign));
    a.prefetch = false;
    let ra = a.step_in();
    let ea = effects(tab());
    let is_irq = taken(pend, sc.psr);
    // HALT and exceptions are recognised through the reference (what counts as an executed instruction is not constrained)
    let halted_or_failed = ra.is_err() || !matches!(rf.out, isa::Outcome::Done);
    tab().rewind();
    let mut b = sim_from(sc, flags(false, true, ign));
    b.prefetch = false;
    let rb = b.step_in();
    let eb = effects(tab());
    kani::cover!(!halted_or_failed, "ordinary step reachable");
    kani::cover!(!halted_or_failed && is_irq, "interrupt entry reachable");
    if !halted_or_failed && ra.is_ok() {
        assert!(rb.is_ok(), "C12.same: an ordinary step also succeeds under real traps");
        assert!(same_scalars(&scalars(&a), &scalars(&b)), "C12.same: same registers, PC, PSR, saved SP, depth, count");
        assert!(same_effects(&ea, &eb), "C12.same: same memory writes and memory/device reads");
    }
}
two_run_harness!(real_vs_virtual_step, real_vs_virtual());

/// C10 transparency, empty-handler case: interrupt entry immediately followed by RTI restores
/// PC, PSR (incl. condition codes), R0-R7, the saved stack pointer and the frame depth, and writes
/// only the two supervisor-stack words.
fn entry_then_rti() {
    let ign: bool = kani::any();
    let real: bool = kani::any();
    let sc = any_scalars();
    kani::assume(sc.depth < u64::MAX);
    let (v, p): (u8, u8) = (kani::any(), kani::any());
    kani::assume((if p > 7 { 7 } else { p }) as u16 > isa::prio(sc.psr));
    kani::assume(real || v > 2);
    // supervisor stack lies in memory (not in the device page)
    let sp = if isa::user(sc.psr) { sc.ssp.get() } else { sc.r[6].get() };
    kani::assume(sp.wrapping_sub(1) < 0xFE00 && sp.wrapping_sub(2) < 0xFE00);
    unsafe { PENDING = Some((v, p)); TAB = Table::new(); }
    let rf1 = isa::step(st_of(&sc), sc.r, tab(), real, ign, Some((v, p)));
    if rf1.unconstrained { return; }
    let mut s = sim_from(sc, flags(false, real, ign));
    s.prefetch = false;
    let r1 = s.step_in();
    assert!(r1.is_ok() && tab().clean() && tab().all_seen(), "C10.entry: taking an interrupt succeeds and pushes PSR and PC");
    let mid = scalars(&s);
    assert!(mid.psr & 0x8000 == 0 && (mid.psr >> 8) & 7 == (if p > 7 { 7 } else { p }) as u16, "C10.entry: supervisor mode at the request's priority");
    assert!(mid.depth == sc.depth + 1, "C27.entry: one frame deeper");
    let pushed = [tab().w[0], tab().w[1]];
    // ---- second step: the handler consists of a single RTI; its pre-state memory holds the two pushed words
    unsafe { PENDING = None; TAB = Table::new(); TAB.base = [(true, pushed[0].addr, pushed[0].written), (true, pushed[1].addr, pushed[1].written)]; }
    let rf2 = isa::step(st_of(&mid), mid.r, tab(), real, ign, None);
    kani::assume(rf2.fetched == Some(0x8000) && mid.pc < 0xFE00 && mid.pc != sp.wrapping_sub(1) && mid.pc != sp.wrapping_sub(2));
    let r2 = s.step_in();
    let end = scalars(&s);
    kani::cover!(r2.is_ok(), "return from the handler reachable");
    assert!(r2.is_ok() && tab().clean(), "C10.rti: RTI in the handler succeeds");
    assert!(end.pc == sc.pc && end.psr == sc.psr, "C10.transparent: PC and PSR (privilege, priority, condition codes) restored");
    let mut i = 0;
    while i < 8 { assert!(end.r[i].get() == sc.r[i].get(), "C10.transparent: R0-R7 restored (incl. the stack pointer)"); i += 1; }
    assert!(end.ssp.get() == sc.ssp.get() && end.depth == sc.depth, "C10.transparent: saved stack pointer and frame depth restored");
    // memory: only the two pushed words were written (step 1: exactly the table's two writes; step 2: none)
    assert!(tab().n_writes == 0, "C10.transparent: only the supervisor stack is written");
    assert!(pushed[0].addr == sp.wrapping_sub(1) && pushed[1].addr == sp.wrapping_sub(2), "C10.entry: PSR and PC are pushed on the supervisor stack");
}
#[kani::proof]
#[kani::stub(std::hash::RandomState::new, stub_random_state)]
#[kani::stub(<DeviceHandler as ExternalDevice>::poll_interrupt, contract_poll)]
#[kani::stub(Simulator::read_mem, contract_read_mem)]
#[kani::stub(Simulator::write_mem, contract_write_mem)]
#[kani::unwind(9)]
fn interrupt_entry_then_rti() { entry_then_rti() }

// =================================================================================================
// C30: reset = a new machine with the same flags and MCR handle, configuration moved across.

static mut NEW_CALLS: u32 = 0;
static mut NEW_FLAGS: Option<SimFlags> = None;
static mut NEW_MCR: *const AtomicBool = std::ptr::null();
static mut IO_RESETS: u32 = 0;
const MARK_PC: u16 = 0x1234;
static mut NEW_SCALARS: Option<Scalars> = None;
static mut NEW_PROBE: (u16, Option<Word>) = (0, None);
fn stub_new_with_mcr(fl: SimFlags, mcr: MCR) -> Simulator {
    unsafe { NEW_CALLS += 1; NEW_FLAGS = Some(fl); NEW_MCR = Arc::as_ptr(&mcr); }
    let mut s = any_sim_with(fl, DeviceHandler::new());
    s.mcr = mcr;
    s.pc = MARK_PC; // marks "the machine the constructor returned"
    s.instructions_run = 0;
    // remember the fresh machine's architectural state: reset must hand back exactly this
    unsafe { NEW_SCALARS = Some(scalars(&s)); NEW_PROBE.1 = Some(s.mem[NEW_PROBE.0]); }
    s
}
fn stub_io_reset(_d: &mut DeviceHandler) { unsafe { IO_RESETS += 1; } }
#[kani::proof]
#[kani::stub(std::hash::RandomState::new, stub_random_state)]
#[kani::stub(Simulator::new_with_mcr, stub_new_with_mcr)]
#[kani::stub(<DeviceHandler as ExternalDevice>::io_reset, stub_io_reset)]
#[kani::unwind(9)]
fn reset_contract() {
    let fl = SimFlags { strict: kani::any(), use_real_traps: kani::any(), machine_init: MachineInitStrategy::Known { value: kani::any() },
                        debug_frames: kani::any(), ignore_privilege: kani::any() };
    let mut sim = any_sim_with(fl, DeviceHandler::new());
    let mcr0 = Arc::as_ptr(&sim.mcr);
    let dev0 = sim.device_handler.verif_ports_ptr();
    unsafe { NEW_PROBE = (kani::any(), None); NEW_SCALARS = None; }
    sim.pause_condition = match kani::any::<u8>() % 3 { 0 => PauseCondition::Halt, 1 => PauseCondition::Breakpoint, _ => PauseCondition::MCROff };
    sim.reset();
    unsafe {
        assert!(NEW_CALLS == 1, "C30.reset: state is exactly that of one freshly constructed machine");
        assert!(NEW_FLAGS == Some(fl), "C30.reset: constructed with the same flags");
        assert!(NEW_MCR == mcr0, "C30.reset: constructed with the same MCR handle");
        // (whether and how often reset also resets the attached devices is not constrained by the property)
        let _ = IO_RESETS;
    }
    assert!(sim.pc == MARK_PC && sim.instructions_run == 0, "C30.reset: the simulation state is the constructor's");
    unsafe {
        assert!(NEW_SCALARS == Some(scalars(&sim)), "C30.reset: registers, PC, PSR, saved SP, frame depth and instruction count are those of a new simulator");
        assert!(NEW_PROBE.1 == Some(sim.mem[NEW_PROBE.0]), "C30.reset: memory is that of a new simulator");
    }
    assert!(!sim.hit_halt() && !sim.hit_breakpoint(), "C30.reset: halt/breakpoint status cleared");
    assert!(sim.flags == fl && Arc::as_ptr(&sim.mcr) == mcr0, "C30.reset: flags and MCR handle kept");
    assert!(sim.device_handler.verif_ports_ptr() == dev0, "C30.reset: the attached devices (handler) are moved across, not rebuilt");
    std::mem::forget(sim);
}

/// C30 (content of the register map): a mapping added before the reset is still there, a default mapping removed
/// before the reset stays removed.  Concrete keys (SipHash of a symbolic key is out of reach); thorough tier.
fn stub_new_with_default_map(fl: SimFlags, mcr: MCR) -> Simulator {
    let mut s = stub_new_with_mcr(fl, mcr);
    s.ireg_mmap = InternalRegister::default_mmap();
    s
}
#[kani::proof]
#[kani::stub(std::hash::RandomState::new, stub_random_state)]
#[kani::stub(Simulator::new_with_mcr, stub_new_with_default_map)]
#[kani::stub(<DeviceHandler as ExternalDevice>::io_reset, stub_io_reset)]
#[kani::unwind(17)]
fn reset_keeps_register_map() {
    let fl = flags(kani::any(), kani::any(), kani::any());
    let mut sim = any_sim_with(fl, DeviceHandler::new());
    // configuration before the reset: PC mapped at xFE10, the default PSR/MCR mappings removed
    let mut m = HashMap::new();
    m.insert(0xFE10u16, InternalRegister::PC);
    sim.ireg_mmap = m;
    sim.reset();
    assert!(sim.ireg_mmap.get(&0xFE10).copied() == Some(InternalRegister::PC), "C30.reset: a mapping made before the reset is kept");
    assert!(sim.ireg_mmap.get(&PSR_ADDR).is_none() && sim.ireg_mmap.get(&MCR_ADDR).is_none(), "C30.reset: a default mapping removed before the reset stays removed");
    assert!(sim.ireg_mmap.len() == 1, "C30.reset: exactly the mappings configured before the reset");
    std::mem::forget(sim);
}

// =================================================================================================
// C13: run loops with `step` replaced by its contract.

#[derive(Clone, Copy, PartialEq, Eq)]
enum StepOut { Ok, Halt, Err }
static mut STEP_N: usize = 0;
static mut STEP_LAST: Option<Scalars> = None;
static mut STEP_TAMPER: bool = false;
static mut STEP_OUTS: [StepOut; 6] = [StepOut::Ok; 6];
static mut STEP_CLEAR_MCR: [bool; 6] = [false; 6];
static mut STEP_BOUND: usize = 0;
/// frame depth and instruction counter seen at the entry of each step (what the loop's stop condition looked at)
static mut STEP_PRE: [(u64, u64); 6] = [(0, 0); 6];
/// PC left by each step, and how often the observer had been cleared when the first step was entered
static mut STEP_POST_PC: [u16; 6] = [0; 6];
static mut STEP_CLEARS_AT_FIRST: u32 = 99;
/// Contract stub of `Simulator::step`: an arbitrary outcome; on success the instruction counter may
/// advance by one (not on an interrupt entry), the frame depth moves by at most one, PC/registers arbitrary;
/// a program may clear the MCR.  Also checks that nothing touched the machine since the previous step.
fn contract_step(s: &mut Simulator) -> Result<(), StepBreak> {
    unsafe {
        if let Some(prev) = STEP_LAST { if !same_scalars(&prev, &scalars(s)) { STEP_TAMPER = true; } }
        let k = STEP_N; STEP_N += 1;
        if k < 6 { STEP_PRE[k] = (s.frame_stack.len(), s.instructions_run); }
        if k == 0 { STEP_CLEARS_AT_FIRST = CLEARS; }
        // bounded stand-in: runs longer than the bound are not explored
        kani::assume(k < STEP_BOUND);
        let out = if kani::any() { StepOut::Ok } else if kani::any() { StepOut::Halt } else { StepOut::Err };
        if k < 6 { STEP_OUTS[k] = out; }
        let r = match out {
            StepOut::Ok => {
                if kani::any() { s.instructions_run = s.instructions_run.wrapping_add(1); }
                s.pc = kani::any();
                let d = s.frame_stack.len();
                let nd: u64 = kani::any();
                kani::assume(nd == d || (d < u64::MAX && nd == d + 1) || (d > 0 && nd == d - 1));
                s.frame_stack = FrameStack::verif_new(nd);
                if kani::any() { s.mcr.store(false, std::sync::atomic::Ordering::Relaxed); if k < 6 { STEP_CLEAR_MCR[k] = true; } }
                Ok(())
            }
            StepOut::Halt => Err(StepBreak::Halt),
            StepOut::Err => Err(StepBreak::Err(SimErr::IllegalOpcode)),
        };
        STEP_LAST = Some(scalars(s));
        if k < 6 { STEP_POST_PC[k] = s.pc; }
        r
    }
}
#[derive(Clone, Copy, PartialEq, Eq)]
enum Runner { Limit, Over, Out, Run }
/// `bound`: the harness explores runs of at most `bound` steps (BOUNDED stand-in for the event loop).
fn run_loop_contract(which: Runner, bound: u64, with_bp: bool) {
    let mut sim = any_sim(flags(kani::any(), kani::any(), kani::any()));
    // (a concrete breakpoint address: hashing a symbolic key through SipHash is out of CBMC's reach; the PC it is compared with stays symbolic)
    let bp_pc: u16 = 0x3005;
    if with_bp { sim.breakpoints.insert(Breakpoint::PC(bp_pc)); }
    let s0 = scalars(&sim);
    let limit: u64 = kani::any();
    kani::assume(limit <= bound);
    unsafe { STEP_N = 0; STEP_LAST = None; STEP_TAMPER = false; STEP_BOUND = bound as usize; CLEARS = 0; STEP_CLEARS_AT_FIRST = 99; }
    let r = match which {
        Runner::Limit => sim.run_with_limit(limit),
        Runner::Over => sim.step_over(),
        Runner::Out => sim.step_out(),
        Runner::Run => sim.run(),
    };
    let n = unsafe { STEP_N };
    let outs = unsafe { STEP_OUTS };
    let cleared = unsafe { STEP_CLEAR_MCR };
    let end = scalars(&sim);
    assert!(!unsafe { STEP_TAMPER }, "C13.steps: between two steps the loop changes nothing of the machine");
    // every step but the last succeeded, did not clear the MCR and did not land on the breakpoint
    let post_pc = unsafe { STEP_POST_PC };
    let mut i = 0;
    while (i as u64) < bound {
        if i + 1 < n {
            assert!(outs[i] == StepOut::Ok && !cleared[i], "C13.stop: no instruction runs after a halt, an error or the MCR being cleared");
            if with_bp { assert!(post_pc[i] != bp_pc, "C13.bp: no instruction runs after a breakpoint matched at an instruction boundary"); }
        }
        i += 1;
    }
    // C28: a run forgets the previous run's accesses once, before its first instruction, and never in between
    if n > 0 { assert!(unsafe { STEP_CLEARS_AT_FIRST } >= 1 && unsafe { STEP_CLEARS_AT_FIRST } != 99 && unsafe { CLEARS == STEP_CLEARS_AT_FIRST }, "C28.clear: a run clears the access observer before its first instruction and never afterwards"); }
    // no instruction runs once the documented stop condition holds at an instruction boundary
    let pre = unsafe { STEP_PRE };
    let mut i = 0;
    while (i as u64) < bound {
        if i < n {
            let (d, ic) = pre[i];
            match which {
                Runner::Limit => assert!(ic.wrapping_sub(s0.icount) < limit, "C13.limit: no instruction runs once the step limit is reached"),
                Runner::Over => assert!(i == 0 || d > s0.depth, "C13.over: after the first instruction, step_over continues only while the frame depth is above the starting depth"),
                Runner::Out => assert!(i == 0 || d >= s0.depth, "C13.out: after the first instruction, step_out continues only while the frame depth is at or above the starting depth"),
                Runner::Run => {}
            }
        }
        i += 1;
    }
    if n > 0 {
        let last = outs[n - 1];
        match last {
            StepOut::Err => assert!(r.is_err(), "C13.err: an error ends the run and is returned"),
            StepOut::Halt => assert!(r.is_ok() && sim.hit_halt() && !sim.hit_breakpoint(), "C13.halt: a halt ends the run successfully"),
            StepOut::Ok => {
                assert!(r.is_ok(), "C13.ok: otherwise the run succeeds");
                let at_bp = with_bp && end.pc == bp_pc;
                assert!(sim.hit_breakpoint() == at_bp, "C13.bp: breakpoint reported exactly when it matches after an executed instruction");
                if !at_bp && !cleared[n - 1] {
                    match which {
                        Runner::Limit => assert!(end.icount.wrapping_sub(s0.icount) >= limit, "C13.limit: a run not stopped otherwise executes until the step limit"),
                        Runner::Over => assert!(end.depth <= s0.depth, "C13.over: step_over stops once the frame depth is back at (or below) the start"),
                        Runner::Out => assert!(end.depth < s0.depth, "C13.out: step_out stops once the frame depth is below the start"),
                        Runner::Run => assert!(false, "C13.run: run() only stops for halt, error, breakpoint or MCR"),
                    }
                }
                if cleared[n - 1] && !at_bp { assert!(sim.hit_halt(), "C13.mcr: clearing the MCR reports a halt"); }
            }
        }
    } else {
        assert!(r.is_ok() && same_scalars(&s0, &end), "C13.zero: a run of zero instructions changes nothing");
        match which {
            Runner::Limit => assert!(limit == 0, "C13.limit: zero steps only for a zero limit"),
            Runner::Out => assert!(s0.depth == 0, "C13.out: step_out does nothing only at top level"),
            _ => assert!(false, "C13.first: step_over/run execute at least one instruction"),
        }
    }
    // the limit is never exceeded; step_over/out never continue once their depth condition holds
    if which == Runner::Out && s0.depth == 0 { assert!(n == 0, "C13.out: step_out at top level executes nothing"); }
    if which == Runner::Limit { assert!(n as u64 <= limit || limit == 0 && n == 0 || end.icount.wrapping_sub(s0.icount) <= limit, "C13.limit: never more than the limit"); }
    kani::cover!(n >= 2, "two-step run reachable");
}
macro_rules! loop_harness {
    ($name:ident, $which:expr, $bound:expr, $bp:expr, $unwind:literal) => {
        #[kani::proof]
        #[kani::stub(std::hash::RandomState::new, stub_random_state)]
        #[kani::stub(Simulator::step, contract_step)]
        #[kani::stub(observer::AccessObserver::clear, count_clear)]
        #[kani::unwind($unwind)]
        fn $name() { run_loop_contract($which, $bound, $bp) }
    };
}
/// `run_while` with a caller-supplied tripwire that adds a breakpoint during the run (the tripwire receives
/// `&mut Simulator`): the breakpoint stops the run at the first boundary where it matches after an executed instruction.
#[kani::proof]
#[kani::stub(std::hash::RandomState::new, stub_random_state)]
#[kani::stub(Simulator::step, contract_step)]
#[kani::stub(observer::AccessObserver::clear, count_clear)]
#[kani::unwind(9)]
fn run_while_tripwire_adds_breakpoint() {
    let mut sim = any_sim(flags(kani::any(), kani::any(), kani::any()));
    let bp_pc: u16 = 0x3005;
    unsafe { STEP_N = 0; STEP_LAST = None; STEP_TAMPER = false; STEP_BOUND = 3; CLEARS = 0; }
    let mut added = false;
    let r = sim.run_while(|s| { if !added { s.breakpoints.insert(Breakpoint::PC(bp_pc)); added = true; } true });
    let n = unsafe { STEP_N };
    let (outs, cleared, post_pc) = unsafe { (STEP_OUTS, STEP_CLEAR_MCR, STEP_POST_PC) };
    kani::cover!(n >= 2, "two-step run reachable");
    let mut i = 0;
    while i < 3 {
        if i + 1 < n { assert!(outs[i] == StepOut::Ok && !cleared[i] && post_pc[i] != bp_pc, "C13.bp: a breakpoint added during the run stops it at the first boundary where it matches"); }
        i += 1;
    }
    if n > 0 && outs[n - 1] == StepOut::Ok {
        assert!(r.is_ok() && sim.hit_breakpoint() == (post_pc[n - 1] == bp_pc), "C13.bp: breakpoint reported exactly when it matches after an executed instruction");
    }
    std::mem::forget(sim);
}
loop_harness!(run_with_limit_3, Runner::Limit, 3, false, 9);
loop_harness!(step_over_3, Runner::Over, 3, false, 9);
loop_harness!(step_out_3, Runner::Out, 3, false, 9);
loop_harness!(run_3, Runner::Run, 3, false, 9);
loop_harness!(run_with_limit_3_bp, Runner::Limit, 3, true, 9);
// thorough tier: one more iteration
loop_harness!(run_with_limit_4, Runner::Limit, 4, false, 9);
loop_harness!(step_over_4, Runner::Over, 4, false, 9);
loop_harness!(step_out_4, Runner::Out, 4, false, 9);

// =================================================================================================
// C32: mapping internal registers.
fn mmap_contract(map: Map, addr: u16, probe: u16) {
    // (concrete addresses: hashing a symbolic key through SipHash is out of CBMC's reach; the cases cover a free I/O
    //  address, an address occupied in the default map, and a non-I/O address)
    let mut sim = l1_sim(map);
    let k: u8 = kani::any();
    kani::assume(k < 4);
    let reg = match k { 0 => InternalRegister::PC, 1 => InternalRegister::PSR, 2 => InternalRegister::MCR, _ => InternalRegister::SavedSP };
    let before_probe = sim.ireg_mmap.get(&probe).copied();
    let before = sim.ireg_mmap.get(&addr).copied();
    let r = sim.mmap_internal(addr, reg);
    match r {
        Ok(()) => { assert!(addr >= 0xFE00 && before.is_none(), "C32.mmap: succeeds only for an unmapped I/O address");
                    assert!(sim.ireg_mmap.get(&addr).copied() == Some(reg), "C32.mmap: the address now reaches that register"); }
        Err(MMapInternalErr::NotInIORange) => assert!(addr < 0xFE00 && sim.ireg_mmap.get(&addr).copied() == before, "C32.mmap: non-I/O addresses are rejected"),
        Err(MMapInternalErr::AddrAlreadyMapped) => assert!(addr >= 0xFE00 && before.is_some() && sim.ireg_mmap.get(&addr).copied() == before, "C32.mmap: an occupied address is rejected and keeps its register"),
    }
    assert!(r.is_ok() == (addr >= 0xFE00 && before.is_none()), "C32.mmap: succeeds exactly for an unmapped I/O address");
    if probe != addr { assert!(sim.ireg_mmap.get(&probe).copied() == before_probe, "C32.mmap: other mappings unchanged"); }
    let removed = sim.munmap_internal(probe);
    assert!(removed == sim_had(&before_probe, probe, addr, r_ok(&r), reg), "C32.munmap: reports whether a mapping existed");
    assert!(sim.ireg_mmap.get(&probe).is_none(), "C32.munmap: the address no longer reaches a register");
}
fn r_ok<E>(r: &Result<(), E>) -> bool { r.is_ok() }
fn sim_had(before_probe: &Option<InternalRegister>, probe: u16, addr: u16, mapped: bool, _reg: InternalRegister) -> bool {
    if probe == addr && mapped { true } else { before_probe.is_some() }
}
macro_rules! mmap_harness {
    ($name:ident, $map:expr, $addr:expr, $probe:expr) => {
        #[kani::proof]
        #[kani::stub(std::hash::RandomState::new, stub_random_state)]
        #[kani::unwind(17)]
        fn $name() { mmap_contract($map, $addr, $probe) }
    };
}
/// C32: a second `mmap_internal` on an address that already reaches a register is rejected and the address keeps
/// reaching the first register (both register kinds symbolic; concrete address xFE10, map initially empty).
#[kani::proof]
#[kani::stub(std::hash::RandomState::new, stub_random_state)]
#[kani::unwind(17)]
fn mmap_internal_twice() {
    let mut sim = l1_sim(Map::Empty);
    let (k1, k2): (u8, u8) = (kani::any(), kani::any());
    kani::assume(k1 < 4 && k2 < 4);
    let kind = |k: u8| match k { 0 => InternalRegister::PC, 1 => InternalRegister::PSR, 2 => InternalRegister::MCR, _ => InternalRegister::SavedSP };
    assert!(sim.mmap_internal(0xFE10, kind(k1)).is_ok(), "C32.mmap: a free I/O address can be mapped");
    let r = sim.mmap_internal(0xFE10, kind(k2));
    assert!(matches!(r, Err(MMapInternalErr::AddrAlreadyMapped)), "C32.mmap: an occupied address is rejected");
    assert!(sim.ireg_mmap.get(&0xFE10).copied() == Some(kind(k1)), "C32.mmap: ... and keeps reaching the register mapped first");
    std::mem::forget(sim);
}
mmap_harness!(mmap_internal_empty_free, Map::Empty, 0xFE10, 0xFE10);
mmap_harness!(mmap_internal_empty_other, Map::Empty, 0xFE10, 0xFE20);
mmap_harness!(mmap_internal_empty_nonio, Map::Empty, 0x3000, 0x3000);
mmap_harness!(mmap_internal_default_free, Map::Default, 0xFE10, 0xFFFC);
mmap_harness!(mmap_internal_default_taken, Map::Default, 0xFFFC, 0xFFFE);
