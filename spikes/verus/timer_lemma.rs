use vstd::prelude::*;
verus! {

// spec transition of one enabled poll: (time, reload) -> (time', fired)
pub open spec fn nxt(time: nat, reload: nat) -> (nat, bool) {
    if time == 0 { (reload, false) } else if time == 1 { (0nat, true) } else { ((time - 1) as nat, false) }
}

// state after k enabled polls starting from `time`, reloads supplied by r(i) for the i-th poll (absolute index base+i)
pub open spec fn run(time: nat, r: spec_fn(nat) -> nat, base: nat, k: nat) -> nat
    decreases k
{
    if k == 0 { time } else { run(nxt(time, r(base)).0, r, base + 1, (k - 1) as nat) }
}
pub open spec fn fired_at(time: nat, r: spec_fn(nat) -> nat, base: nat, k: nat) -> bool {
    // does poll number k (0-based) fire?
    nxt(run(time, r, base, k), r(base + k)).1
}

// from time t >= 1, polls 0..t-2 do not fire and poll t-1 fires
pub proof fn countdown(t: nat, r: spec_fn(nat) -> nat, base: nat)
    requires t >= 1
    ensures
        forall|j: nat| j < t - 1 ==> !fired_at(t, r, base, j),
        fired_at(t, r, base, (t - 1) as nat),
        run(t, r, base, t) == 0,
    decreases t
{
    if t == 1 {
        assert(run(1, r, base, 0) == 1);
        assert(run(1, r, base, 1) == run(0, r, base + 1, 0));
    } else {
        countdown((t - 1) as nat, r, base + 1);
        assert forall|j: nat| j < t - 1 implies !fired_at(t, r, base, j) by {
            if j == 0 {
                assert(run(t, r, base, 0) == t);
            } else {
                assert(run(t, r, base, j) == run((t - 1) as nat, r, base + 1, (j - 1) as nat));
                assert(!fired_at((t - 1) as nat, r, base + 1, (j - 1) as nat));
                assert(base + 1 + (j - 1) as nat == base + j);
            }
        }
        assert(run(t, r, base, (t - 1) as nat) == run((t - 1) as nat, r, base + 1, (t - 2) as nat));
        assert(base + 1 + (t - 2) as nat == base + (t - 1) as nat);
        assert(run(t, r, base, t) == run((t - 1) as nat, r, base + 1, (t - 1) as nat));
    }
}

// interval: just after an interrupt (time == 0), with reload rr = r(base) >= 1:
// polls 0..rr-1 ... exactly rr polls strictly between this interrupt and the next one.
pub proof fn interval(r: spec_fn(nat) -> nat, base: nat)
    requires r(base) >= 1
    ensures
        forall|j: nat| j <= r(base) - 1 ==> !fired_at(0, r, base, j) || j == r(base),
        !fired_at(0, r, base, 0),
        forall|j: nat| 1 <= j < r(base) ==> !fired_at(0, r, base, j),
        fired_at(0, r, base, r(base)),
{
    let rr = r(base);
    countdown(rr, r, base + 1);
    assert(run(0, r, base, 0) == 0);
    assert forall|j: nat| 1 <= j < rr implies !fired_at(0, r, base, j) by {
        assert(run(0, r, base, j) == run(rr, r, base + 1, (j - 1) as nat));
        assert(!fired_at(rr, r, base + 1, (j - 1) as nat));
        assert(base + 1 + (j - 1) as nat == base + j);
    }
    assert(run(0, r, base, rr) == run(rr, r, base + 1, (rr - 1) as nat));
    assert(base + 1 + (rr - 1) as nat == base + rr);
}
} // verus!
fn main() {}
