
#[cfg(kani)]
mod verif_kani {
    use super::*;

    pub(crate) fn stub_random_state() -> std::hash::RandomState {
        unsafe { std::mem::transmute::<[u64; 2], std::hash::RandomState>([0, 0]) }
    }

    fn any_sim(flags: SimFlags) -> Simulator {
        Simulator {
            mem: MemArray::kani_any(),
            reg_file: RegFile::kani_any(),
            pc: kani::any(),
            psr: PSR(kani::any()),
            saved_sp: kani::any(),
            frame_stack: FrameStack::kani_new(kani::any()),
            alloca: Box::new([]),
            instructions_run: kani::any(),
            prefetch: kani::any(),
            pause_condition: Default::default(),
            observer: Default::default(),
            os_loaded: true,
            mcr: Arc::default(),
            flags,
            breakpoints: Default::default(),
            ireg_mmap: HashMap::new(),
            device_handler: Default::default(),
        }
    }

    // ---- contract stubs for read_mem / write_mem with an operation log ----
    #[derive(Clone, Copy)]
    struct MemOp { write: bool, addr: u16, data: Word, strict: bool, privileged: bool }
    static mut LOG: [Option<MemOp>; 6] = [None; 6];
    static mut LOG_N: usize = 0;
    fn log_push(op: MemOp) { unsafe { if LOG_N < 6 { LOG[LOG_N] = Some(op); } LOG_N += 1; } }
    fn stub_read_mem(_s: &mut Simulator, addr: u16, ctx: MemAccessCtx) -> Result<Word, SimErr> {
        if !ctx.privileged && !(addr >= 0x3000 && addr < 0xFE00) { return Err(SimErr::AccessViolation); }
        let w: Word = kani::any();
        log_push(MemOp { write: false, addr, data: w, strict: ctx.strict, privileged: ctx.privileged });
        Ok(w)
    }
    fn stub_write_mem(_s: &mut Simulator, addr: u16, data: Word, ctx: MemAccessCtx) -> Result<(), SimErr> {
        if !ctx.privileged && !(addr >= 0x3000 && addr < 0xFE00) { return Err(SimErr::AccessViolation); }
        if ctx.strict && !data.is_init() {
            return Err(if addr >= 0xFE00 { SimErr::StrictIOSetUninit } else { SimErr::StrictMemSetUninit });
        }
        log_push(MemOp { write: true, addr, data, strict: ctx.strict, privileged: ctx.privileged });
        Ok(())
    }

    #[kani::proof]
    #[kani::stub(std::hash::RandomState::new, stub_random_state)]
    #[kani::stub(<DeviceHandler as ExternalDevice>::poll_interrupt, stub_poll)]
    #[kani::stub(Simulator::read_mem, stub_read_mem)]
    #[kani::stub(Simulator::write_mem, stub_write_mem)]
    #[kani::unwind(9)]
    fn step_modular_ldi() {
        let flags = SimFlags { strict: false, use_real_traps: kani::any(), machine_init: MachineInitStrategy::Known { value: 0 }, debug_frames: false, ignore_privilege: kani::any() };
        let mut sim = any_sim(flags);
        let pc0 = sim.pc;
        let privileged = sim.psr.privileged() || flags.ignore_privilege;
        let r = sim._step_inner();
        unsafe {
            // first op is always the fetch at pc0 (or an access violation)
            if LOG_N == 0 {
                assert!(r.is_err());
            } else {
                let f = LOG[0].unwrap();
                assert!(!f.write && f.addr == pc0);
                let w = f.data.get();
                if w >> 12 == 0b1010 { // LDI
                    let dr = crate::ast::Reg::try_from(((w >> 9) & 7) as u8).unwrap();
                    let off = (((w & 0x1FF) << 7) as i16) >> 7;
                    let a1 = pc0.wrapping_add(1).wrapping_add_signed(off);
                    if LOG_N >= 2 { let o = LOG[1].unwrap(); assert!(!o.write && o.addr == a1);
                        if LOG_N >= 3 { let o2 = LOG[2].unwrap(); assert!(!o2.write && o2.addr == o.data.get());
                            assert!(r.is_ok() && LOG_N == 3);
                            assert!(sim.reg_file[dr].get() == o2.data.get());
                            assert!(sim.pc == pc0.wrapping_add(1));
                        } else { assert!(r.is_err()); }
                    } else { assert!(r.is_err() && !privileged); }
                }
            }
        }
        let _ = sim.prefetch_pc();
    }

    #[kani::proof]
    #[kani::stub(std::hash::RandomState::new, stub_random_state)]
    #[kani::stub(observer::AccessObserver::update_mem_accesses, stub_observe)]
    #[kani::stub(<DeviceHandler as ExternalDevice>::io_write, stub_io_write)]
    #[kani::unwind(4)]
    fn write_mem_contract_default_iregs() {
        let flags = SimFlags { strict: kani::any(), use_real_traps: kani::any(), machine_init: MachineInitStrategy::Known { value: 0 }, debug_frames: false, ignore_privilege: kani::any() };
        let mut sim = any_sim(flags);
        sim.ireg_mmap = InternalRegister::default_mmap();
        let addr: u16 = kani::any();
        let data: Word = kani::any();
        let ctx = MemAccessCtx { privileged: kani::any(), strict: kani::any(), io_effects: kani::any(), track_access: kani::any() };
        let probe: u16 = kani::any();
        let m_probe = sim.mem[probe];
        let (pc0, psr0) = (sim.pc, sim.psr.get());
        let r = sim.write_mem(addr, data, ctx);
        let in_user = addr >= 0x3000 && addr < 0xFE00;
        if !ctx.privileged && !in_user {
            assert!(matches!(r, Err(SimErr::AccessViolation)));
            assert!(sim.mem[probe] == m_probe && sim.pc == pc0 && sim.psr.get() == psr0);
        } else if addr < 0xFE00 {
            if ctx.strict && !data.is_init() { assert!(matches!(r, Err(SimErr::StrictMemSetUninit))); assert!(sim.mem[probe] == m_probe); }
            else { assert!(r.is_ok()); assert!(sim.mem[addr] == data); if probe != addr { assert!(sim.mem[probe] == m_probe); } }
            assert!(sim.pc == pc0 && sim.psr.get() == psr0);
        } else {
            if probe != addr { assert!(sim.mem[probe] == m_probe); }
            if addr == 0xFFFC && r.is_ok() { assert!(sim.psr.get() & 0x8707 == data.get() & 0x8700 | sim.psr.get() & 7); }
            if addr != 0xFFFC { assert!(sim.psr.get() == psr0); }
            assert!(sim.pc == pc0);
        }
    }

    fn stub_observe(_o: &mut observer::AccessObserver, _addr: u16, _set: AccessSet) {}
    fn stub_poll(_d: &mut DeviceHandler) -> Option<device::Interrupt> { None }
    fn stub_io_read(_d: &mut DeviceHandler, _addr: u16, _eff: bool) -> Option<u16> { kani::any() }
    fn stub_io_write(_d: &mut DeviceHandler, _addr: u16, _data: u16) -> bool { kani::any() }

    #[kani::proof]
    #[kani::stub(std::hash::RandomState::new, stub_random_state)]
    #[kani::stub(observer::AccessObserver::update_mem_accesses, stub_observe)]
    #[kani::stub(<DeviceHandler as ExternalDevice>::io_read, stub_io_read)]
    #[kani::unwind(9)]
    fn read_mem_contract() {
        let flags = SimFlags { strict: kani::any(), use_real_traps: kani::any(), machine_init: MachineInitStrategy::Known { value: 0 }, debug_frames: false, ignore_privilege: kani::any() };
        let mut sim = any_sim(flags);
        let addr: u16 = kani::any();
        let ctx = MemAccessCtx { privileged: kani::any(), strict: kani::any(), io_effects: kani::any(), track_access: kani::any() };
        let probe: u16 = kani::any();
        let m_probe = sim.mem[probe];
        let (pc0, psr0) = (sim.pc, sim.psr.get());
        let r = sim.read_mem(addr, ctx);
        let in_user = addr >= 0x3000 && addr < 0xFE00;
        match r {
            Err(SimErr::AccessViolation) => assert!(!ctx.privileged && !in_user),
            Err(_) => assert!(false),
            Ok(w) => {
                assert!(ctx.privileged || in_user);
                assert!(w == sim.mem[addr]);
                if addr < 0xFE00 { assert!(probe != addr || w == m_probe); }
            }
        }
        if probe != addr || addr < 0xFE00 { assert!(sim.mem[probe] == m_probe); }
        assert!(sim.pc == pc0 && sim.psr.get() == psr0);
    }

    #[kani::proof]
    #[kani::stub(std::hash::RandomState::new, stub_random_state)]
    #[kani::stub(observer::AccessObserver::update_mem_accesses, stub_observe)]
    #[kani::stub(<DeviceHandler as ExternalDevice>::poll_interrupt, stub_poll)]
    #[kani::stub(<DeviceHandler as ExternalDevice>::io_read, stub_io_read)]
    #[kani::stub(<DeviceHandler as ExternalDevice>::io_write, stub_io_write)]
    #[kani::unwind(9)]
    fn step_add_spec() {
        let flags = SimFlags { strict: false, use_real_traps: kani::any(), machine_init: MachineInitStrategy::Known { value: 0 }, debug_frames: false, ignore_privilege: kani::any() };
        let mut sim = any_sim(flags);
        let pc0 = sim.pc;
        kani::assume(pc0 >= 0x3000 && pc0 < 0xFE00);
        let w = sim.mem[pc0].get();
        kani::assume(w >> 12 == 0b0001);
        let instr = SimInstr::decode(w);
        kani::assume(instr.is_ok());
        let (dr, sr1, sr2) = match instr { Ok(SimInstr::ADD(a, b, c)) => (a, b, c), _ => unreachable!() };
        let v1 = sim.reg_file[sr1].get();
        let v2 = match sr2 { ImmOrReg::Imm(i) => i.get() as u16, ImmOrReg::Reg(r) => sim.reg_file[r].get() };
        let probe: u16 = kani::any();
        let m0 = sim.mem[probe];
        let r = sim._step_inner();
        assert!(r.is_ok());
        assert!(sim.reg_file[dr].get() == v1.wrapping_add(v2));
        assert!(sim.pc == pc0.wrapping_add(1));
        assert!(sim.mem[probe] == m0);
        let _ = sim.prefetch_pc();
    }
}
