// Kani contracts for src/sim/device/keyboard.rs (overlaid as `crate::sim::device::keyboard::verif_kani`).
// The real `BufferedKeyboard` device (the "standard device" behind KBSR/KBDR) against its register contract,
// single-threaded, lock free or held (C16: never panics; C32/C09: what a read or write of its ports does).
// BOUNDED: buffer of <= 2 bytes.  Lock contention from other threads is C33 (not applicable to this family).
use super::*;
use crate::sim::device::InterruptKind;

fn kb_with(n: usize, b0: u8, b1: u8) -> BufferedKeyboard {
    let mut q = VecDeque::with_capacity(4);
    if n >= 1 { q.push_back(b0); }
    if n >= 2 { q.push_back(b1); }
    BufferedKeyboard { buffer: Arc::new(RwLock::new(q)), interrupts_enabled: kani::any() }
}
fn contents(k: &BufferedKeyboard) -> (usize, Option<u8>, Option<u8>) {
    let g = k.buffer.try_read().unwrap();
    (g.len(), g.get(0).copied(), g.get(1).copied())
}

fn keyboard_case<const N: usize>() {
    let (b0, b1): (u8, u8) = (kani::any(), kani::any());
    let mut k = kb_with(N, b0, b1);
    let ie = k.interrupts_enabled;
    // KBSR: ready bit 15, interrupt-enable bit 14; reading changes nothing
    let sr = k.io_read(KBSR, kani::any());
    assert!(sr == Some(((N > 0) as u16) << 15 | (ie as u16) << 14), "kbd.KBSR: bit 15 = a byte is waiting, bit 14 = interrupts enabled");
    assert!(contents(&k) == (N, if N >= 1 { Some(b0) } else { None }, if N >= 2 { Some(b1) } else { None }), "kbd.KBSR: reading the status consumes nothing");
    // KBDR without effects: peeks
    let peek = k.io_read(KBDR, false);
    assert!(peek == if N >= 1 { Some(b0 as u16) } else { None }, "kbd.KBDR: an effect-free read returns the next byte, if any");
    assert!(contents(&k).0 == N, "kbd.KBDR: an effect-free read consumes nothing");
    // interrupt request: exactly when ready and enabled, at the keyboard's vector/priority
    match k.poll_interrupt() {
        Some(i) => { assert!(N > 0 && ie, "kbd.int: requested only when a byte waits and interrupts are enabled");
                     assert!(matches!(i.kind, InterruptKind::Vectored { vect, priority } if vect == KB_INTV && priority == KB_INTP), "kbd.int: keyboard vector and priority"); }
        None => assert!(!(N > 0 && ie), "kbd.int: a waiting byte with interrupts enabled is always requested"),
    }
    // any other port: not this device
    let other: u16 = kani::any();
    kani::assume(other != KBSR && other != KBDR);
    assert!(k.io_read(other, kani::any()).is_none() && !k.io_write(other, kani::any()), "kbd.other: other ports are not the keyboard's");
    assert!(!k.io_write(KBDR, kani::any()), "kbd.KBDR: the data register is read-only");
    // KBDR with effects: pops exactly one byte, in order
    let got = k.io_read(KBDR, true);
    assert!(got == if N >= 1 { Some(b0 as u16) } else { None }, "kbd.KBDR: an effectful read returns the next byte");
    assert!(contents(&k) == (N.saturating_sub(1), if N >= 2 { Some(b1) } else { None }, None), "kbd.KBDR: ... and consumes exactly that byte");
    // KBSR write: only the interrupt-enable bit
    let d: u16 = kani::any();
    assert!(k.io_write(KBSR, d) && k.interrupts_enabled == ((d >> 14) & 1 != 0), "kbd.KBSR: writing sets interrupt enable from bit 14");
    assert!(contents(&k).0 == N.saturating_sub(1), "kbd.KBSR: writing the status consumes nothing");
    k.io_reset();
    assert!(contents(&k).0 == 0 && !k.interrupts_enabled, "kbd.reset: input cleared, interrupts disabled");
}
#[kani::proof] #[kani::unwind(6)] fn keyboard_0() { keyboard_case::<0>() }
#[kani::proof] #[kani::unwind(6)] fn keyboard_1() { keyboard_case::<1>() }
#[kani::proof] #[kani::unwind(6)] fn keyboard_2() { keyboard_case::<2>() }

/// Buffer lock held elsewhere (same thread holds a guard): every access degrades gracefully, nothing panics,
/// nothing is consumed.
#[kani::proof] #[kani::unwind(6)]
fn keyboard_locked() {
    let mut k = kb_with(1, kani::any(), 0);
    let buf = Arc::clone(&k.buffer);
    let guard = buf.try_write().unwrap();
    assert!(k.io_read(KBSR, kani::any()) == Some((k.interrupts_enabled as u16) << 14), "kbd.locked: not ready while the buffer is locked");
    assert!(k.io_read(KBDR, kani::any()).is_none(), "kbd.locked: no data while the buffer is locked");
    assert!(k.poll_interrupt().is_none(), "kbd.locked: no interrupt while the buffer is locked");
    k.io_reset();
    assert!(guard.len() == 1, "kbd.locked: nothing consumed behind the holder's back");
}
