}
#[cfg(kani)]
mod verif_kani {
    use super::*;
    use logos::Logos;

    #[kani::proof]
    #[kani::unwind(8)]
    fn str_literal_no_panic_3() {
        let b: [u8; 4] = [b'"', kani::any(), kani::any(), kani::any()];
        let s = match std::str::from_utf8(&b) { Ok(s) => s, Err(_) => return };
        let mut lx = Token::lexer(s);
        lx.bump(1);
        let _ = lex_str_literal(&mut lx);
    }

    #[kani::proof]
    #[kani::unwind(8)]
    fn lex_dec_3bytes() {
        let b: [u8; 3] = kani::any();
        kani::assume(b[0].is_ascii_digit() && b[1].is_ascii_digit() && b[2].is_ascii_digit());
        let s = std::str::from_utf8(&b).unwrap();
        let mut lx = Token::lexer(s);
        let t = lx.next();
        let v = (b[0]-b'0') as u16 * 100 + (b[1]-b'0') as u16 * 10 + (b[2]-b'0') as u16;
        assert!(t == Some(Ok(Token::Unsigned(v))));
    }
}
