#!/usr/bin/env python3
"""Writes /verif/MANIFEST.json from tools/registry.py (claimed properties) and the not-applicable list below."""
import json, os, sys
sys.path.insert(0, os.path.dirname(os.path.abspath(__file__)))
import registry

V = registry.V
TECH_K = "contract-based deductive verification: assume/assert contract harnesses on the real functions discharged by Kani/CBMC (callers checked against callee contracts via stubs)"
TECH_V = "contract-based deductive verification: requires/ensures + inductive lemmas discharged by Verus/Z3 on function bodies extracted verbatim from /repo on every run"
NOTE = {
 "C01": "Assumed (named): pass-1/pass-2 statement loops of SymbolTable::new / ObjectFile::new incl. the lc+1 call site and which block a statement is written to; label map construction. The block writer ObjBlock (nested items, extracted verbatim each run) is under contract: .fill/.blkw/.stringz emission. Bounded: .stringz (<= 4 bytes), .blkw (n = 1, 4), label offset and .fill LABEL (1 label). Trusted: rustc, Kani, CBMC, CaDiCaL, Verus, Z3, vstd; assumed specs for core::mem::take and u16::wrapping_neg.",
 "C02": "Assumed (named): block nesting, duplicate-label detection, neighbour-only overlap search, never-panics-on-any-program (all inside the pass loops). Trusted: Verus/Z3/vstd, Kani/CBMC; assumed specs for core::mem::take, u16::wrapping_neg.",
 "C05": "Assumed: which validator the logos DFA dispatches a literal to, malformed literals, and the .blkw non-zero test inside Directive::parse. Bounded: validators called directly with 1-6 digits. alloc::fmt::format is stubbed by a panicking function in the value conversions (checked unreachable) and by a constant in the register-token harness. Trusted: rustc/Kani/CBMC.",
 "C06": "rustc/Kani/CBMC/CaDiCaL trusted; std verified through",
 "C07": "Assumed: Display for AsmInstr/Directive and the lexer/parser (text leg). str::to_uppercase stubbed by a panicking function (checked unreachable). Trusted: rustc/Kani/CBMC.",
 "C08": "Modular assumptions discharged elsewhere: read_mem/write_mem contract (L1 obligations), poll_interrupt contract (device obligations). Remaining assumptions: default internal-register map in L2; a port read twice in one step returns the same value; debug_frames off in L2; devices abstracted as 'arbitrary result, no simulator access'; RandomState::new stubbed (fixed hash keys); nondeterministic 64K heap block as symbolic memory. Trusted: rustc/Kani/CBMC/CaDiCaL.",
 "C09": "As C08. Device state unchanged on a denied access = the device handler is not called (L1).",
 "C10": "As C08. Arbitration bounded (<= 4 device slots, incl. external interrupts); transparency proved for the empty handler (entry immediately followed by RTI); handlers with bodies and 'same output as an uninterrupted run' are guest-program properties: not claimed. The real keyboard device's interrupt request is covered under C16/C32.",
 "C12": "As C08. Program-level statements (same display output, OS message printed) are guest code: not claimed.",
 "C13": "Bounded stand-in, never counted as proved: <= 3 (thorough: 4) iterations of the event loop with Simulator::step replaced by its contract; one breakpoint at a concrete address. 'Splitting an execution into segments' follows from the loop carrying no state besides the machine (asserted between steps) only within the bound. step_in against step's contract and the breakpoint predicates are complete.",
 "C14": "As C08; strict exemption list <= 1 block in the relational obligations (in_alloca itself: <= 2 blocks).",
 "C15": "rustc/Kani/CBMC/CaDiCaL trusted; std verified through",
 "C16": "As C08; std containers' own panic-freedom assumed on unexplored paths; frame depth < 2^64 - 1; keyboard and display devices verified single-threaded with buffers <= 2 bytes (bounded), custom devices abstracted as arbitrary results; timer sampling relies on rand; run_with_limit covered only through the bounded C13 obligations; load_obj_file and new_with_mcr not covered.",
 "C19": "Bounded and partial: the binary reader's slice helpers (<= 8 bytes), count_digits (complete), and copy_obj_block incl. wrapping blocks (concrete shapes). Not covered: BinaryFormat::deserialize as a whole, TextFormat::deserialize, re-serialization as a whole, link, load_obj_file's loop.",
 "C23": "Bounded: 1 label, one-letter name, one obligation per query spelling; add_label (extracted verbatim) only for a name not yet in the table. That pass 1's statement loop passes the right names, addresses and spans, and duplicate-label handling, are assumed.",
 "C25": "Assumed: SourceInfo::from_string builds a strictly increasing newline table ending with the text length (str searching); get_line's contract in the Verus unit (checked bounded by Kani, <= 4 entries); String::len <= isize::MAX. Bounded: trimming in line_span/read_line (<= 4 ASCII bytes, <= 1 newline). Trusted: Verus/Z3/vstd, Kani/CBMC.",
 "C26": "Call sites (which spans each assembler/linker error carries; 'lies within the source') assumed, except replace_pc_offset's label span (undefined / external / out-of-range label operands).",
 "C27": "As C08 (L2 compares each entered frame's caller, callee and kind with the reference through push_frame's contract). Debug frames: <= 1 prior frame, <= 2 parameters, no signature registered (obligations with a registered signature ran out of memory: re-registration and the built-in trap signatures are assumed).",
 "C28": "As C08; observer map bounded (2 updates); what is recorded for device-page reads is not constrained (the property speaks of non-I/O addresses).",
 "C29": "Bounded and partial: copy_obj_block with concrete start address and concrete S/N shape per obligation; the constructor new_with_mcr (I/O page zero, OS loaded once) with MemArray::new, <[Word]>::fill (single-element contract), load_os, FrameStack::new and the rand sources stubbed. Not covered: Simulator::load_obj_file (iteration over the object file's BTreeMap of blocks, external-symbol rejection, alloca list), registers/PC unchanged by load, the content of the OS image.",
 "C30": "reset is verified against new_with_mcr replaced by a recording stub ('equals a new simulator' holds by construction of reset calling it once with the same flags and MCR handle); the constructor's body has its own obligations (K.new.*) with MemArray::new, <[Word]>::fill, load_os, FrameStack::new and rand stubbed -- OS image and the 64K memory fill are not verified; register map compared by content for one concrete mapping; breakpoint set not compared by content; io_reset per device slot bounded (4 slots) and its call by reset not required.",
 "C32": "Device counts bounded (<= 5 slots, <= 2 requested ports); remove_device explored per removed id with one symbolic owner, plus one concrete multi-port table; mmap_internal with concrete addresses (hashing a symbolic key is out of reach); <SimDevice as ExternalDevice> calls replaced by slot-recording stubs; real keyboard/display devices with buffers <= 2 bytes; custom devices (Box<dyn ExternalDevice>) abstracted.",
 "C34": "Assumed: StdRng's raw output is arbitrary (ChaCha not executed) and rand's range reduction is verified through only for four concrete ranges; try_generate_time's contract in the Verus unit is otherwise assumed; ranges must be subsets of [1, inf) for the interval lemma; 'the same seed gives the same sequence': TimerDevice::new builds the generator from the given seed alone (bounded: one concrete seed, two concrete ranges), StdRng's determinism in its seed is assumed (crate rand, not executed).",
 "C35": "rustc/Kani/CBMC/CaDiCaL trusted; std verified through",
}
ENGINE = {"C02": "verus+kani", "C01": "kani+verus", "C34": "verus+kani", "C25": "verus+kani"}
NA = {
 "C03": "Text -> tokens goes through the logos-generated DFA and str::to_uppercase/parse: Verus has no str byte reasoning, Kani needed 19 GB for a 3-byte literal; the metamorphic statement is relational over texts. No contract within reach decides it.",
 "C04": "The panics live in byte/char scanning (lex_str_literal: lines, find, slicing) behind the logos DFA; Kani on lex_str_literal with 3 symbolic bytes: 41 GB, no verdict; no honest bounded stand-in exists below 3 bytes.",
 "C11": "A Hoare-logic statement about the LC-3 guest program os.asm running on the simulator; no Rust function carries it; tens of symbolic steps through the simulator are infeasible.",
 "C17": "Object-file codecs are HashMap<String,_>/BTreeMap/Vec<u8> plumbing in two monolithic functions; a bounded round-trip harness reached no verdict in 40 min / 25 min. (Reader slice helpers: see C19.)",
 "C18": "escape_default / unescaper::unescape / lines / trim / splitn: string reasoning neither tool supports; external crate.",
 "C20": "Linker merge is HashMap<String,_>/BTreeMap plumbing; order-independence over all link orders is a relational history property.",
 "C21": "Relocation recording happens inside pass 1 (SymbolTable::new: HashMap<String,_> plumbing, not executable symbolically in useful time).",
 "C22": "Debug-symbol concatenation in DebugSymbols::link / label merge: String/BTreeMap plumbing out of reach of both tools.",
 "C24": "Line table is built inside pass 1 and LineSymbolMap (BTreeMap of blocks): out of reach of both tools in useful time.",
 "C31": "Determinism of two runs is relational over whole histories; the RNG (rand::StdRng) is an external crate.",
 "C33": "Quantifies over thread schedules; Kani has no thread support and Verus would need its permission types around RwLock.",
 "C36": "Display/format! followed by the logos DFA: text processing outside both tools.",
}


def main():
    props = registry.PROPS
    checks = []
    for pid in sorted(props):
        level, text = props[pid]
        engines = {o["engine"] for o in registry.OBL if pid in o["properties"]}
        checks.append({
            "property_id": pid,
            "quick_cmd": f"./check {pid} --tier quick",
            "thorough_cmd": f"./check {pid} --tier thorough",
            "evidence_file": f"/verif/evidence/{pid}.json",
            "replay_cmd_template": f"./check {pid} --replay {{path}}",
            "engine": ENGINE.get(pid, "+".join(sorted(engines))),
            "level_claimed": {"category": level, "text": text, "design_ref": f"DESIGN.md section 5 {pid}"},
            "level_note": NOTE[pid],
            "technique": (TECH_V + "; " + TECH_K) if "verus" in engines and "kani" in engines else (TECH_V if "verus" in engines else TECH_K),
        })
    fixes = [l.split()[0] for l in os.popen("git -C /repo log --format='%h %s' | grep ' fix:'").read().splitlines()]
    man = {
        "version": 1,
        "setup_cmd": "true",
        "hooks": {
            "guard": "cfg(kani)",
            "enable": "no hook commits in /repo: checks copy /repo's working tree to a scratch directory (/var/tmp/lc3v, override with VERIF_SCRATCH) and append `#[cfg(kani)] #[path=...] mod verif_kani*;` lines there (add-only); nested functions and the Verus units' function bodies are re-extracted verbatim from /repo on every run; native counterexample replays add --cfg verif_native",
            "baseline_off_cmd": "cd /repo && cargo test --workspace --no-fail-fast --offline",
            "source_commits": [],
            "add_only": True,
        },
        "engines": [
            {"name": "kani", "path": "/verif/kani", "serves_properties": sorted({p for o in registry.OBL if o["engine"] == "kani" for p in o["properties"]}), "kind_free_text": "Kani 0.68 / CBMC 6.11 contract harnesses overlaid on a scratch copy of the real crate"},
            {"name": "verus", "path": "/verif/verus", "serves_properties": sorted({p for o in registry.OBL if o["engine"] == "verus" for p in o["properties"]}), "kind_free_text": "Verus 0.2026.09.13 on function bodies extracted verbatim on every run"},
        ],
        "checks": checks,
        "notes": "Exit codes of ./check: 0 held, 1 violation (VIOLATION line), 2 undecided (tool limit / lost anchor; never an alarm). There are no hook commits in /repo (hooks.source_commits is empty): harness modules are overlaid on a scratch copy under cfg(kani); native replays of counterexamples additionally build the scratch copy with --cfg verif_native (harness code only). Unguarded 'fix:' commits in /repo (genuine defects repaired, see known_findings.json): " + ", ".join(fixes) + ".",
        "not_applicable": [{"property_id": k, "reason": v} for k, v in sorted(NA.items())],
    }
    only = os.environ.get("MANIFEST_ONLY")
    if only:
        keep = set(only.split(","))
        dropped = [c["property_id"] for c in man["checks"] if c["property_id"] not in keep]
        man["checks"] = [c for c in man["checks"] if c["property_id"] in keep]
        man["not_applicable"] += [{"property_id": p, "reason": "check under construction in this snapshot (harnesses exist in /verif/kani, not yet validated end to end)"} for p in dropped]
        man["not_applicable"].sort(key=lambda x: x["property_id"])
    with open(os.path.join(V, "MANIFEST.json"), "w") as f:
        json.dump(man, f, indent=1)
    print("checks:", [c["property_id"] for c in man["checks"]])


if __name__ == "__main__":
    main()
