// Kani contracts for src/sim/observer.rs (overlaid as `crate::sim::observer::verif_kani`).
// C28: the observer is a map address -> union of the access flags recorded for it (BOUNDED: two updates);
// flag accessors report exactly their bit.
use super::*;

#[kani::proof]
fn access_set_leaf() {
    let (a, b): (u8, u8) = (kani::any(), kani::any());
    kani::assume(a < 8 && b < 8);
    let (x, y) = (AccessSet(a), AccessSet(b));
    let u = x | y;
    assert!(u.read() == (x.read() || y.read()) && u.written() == (x.written() || y.written()) && u.modified() == (x.modified() || y.modified()), "C28.set: union of flags");
    assert!(AccessSet::READ.read() && !AccessSet::READ.written() && !AccessSet::READ.modified(), "C28.set: READ is only read");
    assert!(!AccessSet::WRITTEN.read() && AccessSet::WRITTEN.written() && !AccessSet::WRITTEN.modified(), "C28.set: WRITTEN is only written");
    assert!(!AccessSet::MODIFIED.read() && !AccessSet::MODIFIED.written() && AccessSet::MODIFIED.modified(), "C28.set: MODIFIED is only modified");
    assert!(!AccessSet::default().accessed() && x.accessed() == (a != 0), "C28.set: accessed iff some flag");
    let mut z = x; z |= y;
    assert!(z.0 == u.0, "C28.set: |= is |");
}
fn bits(s: AccessSet) -> u8 { (s.read() as u8) | ((s.written() as u8) << 1) | ((s.modified() as u8) << 2) }
#[kani::proof]
#[kani::unwind(8)]
fn observer_map_two_updates() {
    let mut o = AccessObserver::new();
    let (a1, a2, probe): (u16, u16, u16) = (kani::any(), kani::any(), kani::any());
    let (f1, f2): (u8, u8) = (kani::any(), kani::any());
    kani::assume(f1 < 8 && f2 < 8 && f1 != 0 && f2 != 0);
    assert!(bits(o.get_mem_accesses(probe)) == 0, "C28.map: a new observer has recorded nothing");
    o.update_mem_accesses(a1, AccessSet(f1));
    o.update_mem_accesses(a2, AccessSet(f2));
    let want = (if probe == a1 { f1 } else { 0 }) | (if probe == a2 { f2 } else { 0 });
    kani::cover!(a1 == a2 && f1 != f2, "two updates of one address reachable");
    assert!(bits(o.get_mem_accesses(probe)) == want, "C28.map: an address carries exactly the union of the flags recorded for it; others nothing");
    o.clear();
    assert!(bits(o.get_mem_accesses(probe)) == 0, "C28.clear: clearing forgets everything");
}
#[kani::proof]
#[kani::unwind(8)]
fn observer_take() {
    let mut o = AccessObserver::new();
    let (a1, f1): (u16, u8) = (kani::any(), kani::any());
    kani::assume(f1 < 8 && f1 != 0);
    o.update_mem_accesses(a1, AccessSet(f1));
    let mut it = o.take_mem_accesses();
    match it.next() { Some((a, s)) => assert!(a == a1 && bits(s) == f1, "C28.take: yields the recorded entry"), None => assert!(false, "C28.take: yields the recorded entry") }
    assert!(it.next().is_none(), "C28.take: and nothing else");
    drop(it);
    assert!(bits(o.get_mem_accesses(a1)) == 0, "C28.take: taking empties the observer");
}
