// Kani contracts for src/sim/mem.rs, second module (overlaid as `crate::sim::mem::verif_kani_copy`; kept apart from
// sim__mem.rs so that the obligations built on that file keep their cache entries).
use super::*;
// ---- C29: placing one block of an object image into memory (BOUNDED: concrete start address and concrete shape --
// which words are initialized (S) and which reserved (N) -- per obligation, so that every slice length and every chunk
// boundary is concrete; the words' values, the previous memory contents and the probe address are symbolic) ---------
/// `MemArray::copy_obj_block(start, data)`: every initialized word of the block is set to its value (fully
/// initialized), every reserved word is marked uninitialized, every other memory word is unchanged -- also when the
/// block runs past xFFFF and continues at x0000.
fn copy_block_case<const L: usize>(start: u16, shape: [bool; L]) {
    let mut mem = MemArray::verif_any();
    let vals: [u16; L] = kani::any();
    let mut data: Vec<Option<u16>> = Vec::with_capacity(L);
    let mut i = 0;
    while i < L { data.push(if shape[i] { Some(vals[i]) } else { None }); i += 1; }
    let probe: u16 = kani::any();
    let before = mem[probe];
    mem.copy_obj_block(start, &data);
    let after = mem[probe];
    let off = probe.wrapping_sub(start) as usize;      // position of the probe inside the block, if any
    kani::cover!(off < L, "probe inside the block reachable");
    if off < L {
        if shape[off] { assert!(after == Word::new_init(vals[off]), "C29.copy: an initialized word of the image is placed at its address"); }
        else { assert!(!after.is_init() && after.verif_mask() == 0, "C29.copy: a reserved word of the image is marked uninitialized"); }
    } else {
        assert!(after == before, "C29.copy: every memory word outside the block is unchanged");
    }
}
#[kani::proof] #[kani::unwind(8)] fn copy_block_user_ssns() { copy_block_case::<4>(0x3000, [true, true, false, true]) }
#[kani::proof] #[kani::unwind(8)] fn copy_block_user_nnss() { copy_block_case::<4>(0x4321, [false, false, true, true]) }
#[kani::proof] #[kani::unwind(8)] fn copy_block_single() { copy_block_case::<1>(0x0000, [true]) }
#[kani::proof] #[kani::unwind(8)] fn copy_block_end_of_memory() { copy_block_case::<2>(0xFFFE, [true, false]) }
#[kani::proof] #[kani::unwind(8)] fn copy_block_wrap_init() { copy_block_case::<4>(0xFFFE, [true, true, true, true]) }
#[kani::proof] #[kani::unwind(8)] fn copy_block_wrap_uninit() { copy_block_case::<3>(0xFFFF, [false, false, true]) }
