#!/usr/bin/env python3
"""Source of truth for /verif/obligations.json (run: python3 tools/registry.py).  See DESIGN.md section 3.3."""
import json, os

V = os.path.dirname(os.path.dirname(os.path.abspath(__file__)))
UF = ["--arrays-uf-always"]
OBL = []

MODPATH = {
    "ast.rs": "ast", "ast__sim.rs": "ast::sim", "asm.rs": "asm", "asm__objblock.rs": "asm", "sim__new.rs": "sim", "sim__device__timer__seed.rs": "sim::device::timer", "asm__encoding.rs": "asm::encoding", "err.rs": "err",
    "parse.rs": "parse", "parse__lex.rs": "parse::lex", "sim.rs": "sim", "sim__mem.rs": "sim::mem", "sim__mem__copy.rs": "sim::mem", "sim__frame.rs": "sim::frame", "sim__device.rs": "sim::device", "sim__device__poll.rs": "sim::device", "sim__device__h.rs": "sim::device", "sim__frame__h.rs": "sim::frame", "sim__mem__h.rs": "sim::mem", "sim__frame__sig.rs": "sim::frame", "asm__encoding__deser.rs": "asm::encoding",
    "sim__device__timer.rs": "sim::device::timer", "sim__device__keyboard.rs": "sim::device::keyboard", "sim__device__display.rs": "sim::device::display", "sim__debug.rs": "sim::debug", "sim__observer.rs": "sim::observer",
}


MODNAME = {"sim__new.rs": "verif_kani_new", "sim__device__timer__seed.rs": "verif_kani_seed", "asm__objblock.rs": "verif_kani_gen::objblock_h", "sim__mem__copy.rs": "verif_kani_copy", "sim__device__poll.rs": "verif_kani_poll", "sim__device__h.rs": "verif_kani_h", "sim__frame__h.rs": "verif_kani_h", "sim__mem__h.rs": "verif_kani_h", "sim__frame__sig.rs": "verif_kani_sig", "asm__encoding__deser.rs": "verif_kani_deser"}


def K(id, module, harness, props, functions, kind="complete", bound=None, tier="quick", args=None, timeout=900,
      stubs=None, assumptions=None, replay=None, group="", unwindset=None, exploratory=False, canary=False, native_search=None):
    o = {"id": id, "engine": "kani", "module": module, "harness": f"{MODPATH[module]}::{MODNAME.get(module, 'verif_kani')}::{harness}",
         "properties": props, "functions": functions, "kind": kind, "bound": bound, "tier": tier,
         "cbmc_args": list(args or []), "timeout_s": timeout, "stubs": stubs or [], "assumptions": assumptions or [],
         "replay": replay, "group": group}
    if unwindset: o["unwindset"] = unwindset
    if exploratory: o["exploratory"] = True
    if canary: o["canary"] = True
    if native_search: o["native_search"] = native_search
    OBL.append(o)


def Vv(id, unit, props, functions, expect, tier="quick", assumptions=None, native_search=None, canary=False, timeout=300):
    o = {"id": id, "engine": "verus", "unit": unit, "properties": props, "functions": functions, "kind": "complete", "bound": None,
         "tier": tier, "timeout_s": timeout, "stubs": [], "assumptions": assumptions or [], "expect_verified": expect}
    if native_search: o["native_search"] = native_search
    if canary: o["canary"] = True
    OBL.append(o)


# ------------------------------------------------------------------------------------------------ canaries
K("K.canary", "ast.rs", "canary_must_fail", [], ["Offset::new"], canary=True)
Vv("V.canary", "canary", [], [], None, canary=True)

# ------------------------------------------------------------------------------------------------ ast.rs
for n in range(1, 17):
    extra_i = ["C05"] if n in (5, 6, 9, 11) else []
    extra_u = ["C05"] if n in (8, 16) else []
    K(f"K.ast.offset_i_{n}", "ast.rs", f"offset_i_{n}", ["C35"] + extra_i,
      ["Offset::<i16,N>::new", "Offset::<i16,N>::new_trunc", "<i16 as OffsetBacking>::truncate"], replay="native")
    K(f"K.ast.offset_u_{n}", "ast.rs", f"offset_u_{n}", ["C35"] + extra_u,
      ["Offset::<u16,N>::new", "Offset::<u16,N>::new_trunc", "<u16 as OffsetBacking>::truncate"], replay="native")
K("K.ast.reg_try_from", "ast.rs", "reg_try_from", ["C05"], ["<Reg as TryFrom<u8>>::try_from", "Reg::reg_no"], replay="native")

# ------------------------------------------------------------------------------------------------ ast/sim.rs
DEC = ["SimInstr::decode", "SimInstr::encode", "SimInstr::opcode", "join_bits", "DecodeUtils::slice/assert_equals/reg/imm_or_reg/ioffset/trap_vect"]
K("K.ast_sim.decode_inverse", "ast__sim.rs", "decode_inverse", ["C06", "C08", "C07"], DEC, replay="native")
K("K.ast_sim.encode_spec", "ast__sim.rs", "encode_spec_and_roundtrip", ["C06", "C01"], DEC, replay="native")
K("K.ast_sim.opcode_spec", "ast__sim.rs", "opcode_spec", ["C01"], ["SimInstr::opcode"], replay="native")

# ------------------------------------------------------------------------------------------------ sim/mem.rs
K("K.mem.word_ops_sound", "sim__mem__h.rs", "word_ops_sound", ["C15"], ["<Word as Add>::add", "<Word as Sub>::sub", "<Word as BitAnd>::bitand", "<Word as Not>::not"], replay="native")
K("K.mem.word_assign_ops", "sim__mem__h.rs", "word_assign_ops_agree", ["C15"],
  ["<Word as AddAssign>::add_assign", "<Word as AddAssign<u16>>::add_assign", "<Word as AddAssign<i16>>::add_assign",
   "<Word as SubAssign>::sub_assign", "<Word as SubAssign<u16>>::sub_assign", "<Word as SubAssign<i16>>::sub_assign",
   "<Word as BitAndAssign>::bitand_assign"], replay="native")
K("K.mem.word_leaf", "sim__mem__h.rs", "word_leaf_contracts", ["C14", "C16"],
  ["Word::new_init", "Word::new_uninit", "Word::get", "Word::get_if_init", "Word::set", "Word::set_if_init", "Word::is_init",
   "Word::clear_init", "<Word as From<u16>>::from", "<Word as From<i16>>::from"], replay="native")
K("K.mem.regfile_index", "sim__mem__h.rs", "regfile_index_contract", ["C16", "C08"], ["<RegFile as Index<Reg>>::index", "<RegFile as IndexMut<Reg>>::index_mut"], replay="native")

for h, b in (("copy_block_user_ssns", "start x3000, shape S S N S"), ("copy_block_user_nnss", "start x4321, shape N N S S"), ("copy_block_single", "start x0000, one initialized word"),
             ("copy_block_end_of_memory", "start xFFFE, shape S N (ends exactly at x10000)"), ("copy_block_wrap_init", "start xFFFE, four initialized words (wraps to x0000)"),
             ("copy_block_wrap_uninit", "start xFFFF, shape N N S (wraps to x0000)")):
    K(f"K.mem.{h}", "sim__mem__copy.rs", h, ["C29", "C19"], ["MemArray::copy_obj_block"], kind="bounded", bound=b + "; word values, previous memory and probe address symbolic",
      args=UF, group="copy", timeout=900)

# ------------------------------------------------------------------------------------------------ sim/frame.rs
RS = "std::hash::RandomState::new=fixed keys (hash keys do not affect map semantics)"
K("K.frame.depth", "sim__frame__h.rs", "depth_contract", ["C27", "C16"], ["FrameStack::push_frame", "FrameStack::pop_frame", "FrameStack::len", "FrameStack::is_empty"],
  args=UF, stubs=[RS], group="frame")
for h, b in (("debug_frame_0", "empty frame list"), ("debug_frame_1", "one frame already on the list")):
    K(f"K.frame.{h}", "sim__frame__h.rs", h, ["C27"], ["FrameStack::push_frame", "FrameStack::pop_frame", "FrameStack::frames"],
      kind="bounded", bound=b + "; no signature registered for the callee", args=UF, stubs=[RS], group="frame", timeout=1200)
for n in (0, 1, 2):
    K(f"K.frame.arguments_{n}", "sim__frame__h.rs", f"arguments_{n}", ["C27"], ["ParameterList::get_arguments"],
      kind="bounded", bound=f"{n} parameter(s)", args=UF, group="frame", timeout=1200)
for h, b in (("sig_trap_registered", "TRAP frame, vector x21"), ("sig_trap_other_vector", "TRAP frame, vector x23"), ("sig_trap_wide_address", "TRAP frame, address x0121"),
             ("sig_interrupt_same_low_byte", "interrupt frame, address x0121"), ("sig_interrupt_same_address", "interrupt frame, address x0021"), ("sig_subroutine_same_address", "subroutine frame, address x0021")):
    K(f"K.frame.{h}", "sim__frame__sig.rs", h, ["C27"], ["FrameStack::push_frame", "FrameStack::frames"],
      kind="bounded", bound=b + "; one signature registered (trap vector x21, calling convention, no named parameter); registers, memory, caller, depth symbolic",
      args=UF, stubs=[RS], unwindset={"hashbrown": 3}, group="framesig", timeout=1500)
# (sig_redefinition_overwrites -- two registrations of one subroutine, then a lookup -- is kept in the harness file but not registered: no verdict in 12 min)

# ------------------------------------------------------------------------------------------------ sim/device.rs
SLOT = "<SimDevice as ExternalDevice>::{io_read,io_write,poll_interrupt,io_reset}=recording stub: arbitrary result, no access to simulator state (guaranteed by the &mut self signature)"
K("K.device.io_read_dispatch", "sim__device__h.rs", "io_read_dispatch", ["C32"], ["DeviceHandler::io_read", "DeviceHandler::get_dev_id"], bound="4 device slots (port table fully symbolic)", stubs=[SLOT], group="dev")
K("K.device.io_write_dispatch", "sim__device__h.rs", "io_write_dispatch", ["C32"], ["DeviceHandler::io_write", "DeviceHandler::get_dev_id"], bound="4 device slots (port table fully symbolic)", stubs=[SLOT], group="dev")
K("K.device.null", "sim__device__h.rs", "null_device_contract", ["C32"], ["NullDevice::io_read", "NullDevice::io_write", "NullDevice::poll_interrupt", "<SimDevice as ExternalDevice>::* (Null arm)"], group="dev")
K("K.device.new_wf", "sim__device__h.rs", "new_handler_wf", ["C32"], ["DeviceHandler::new"], group="dev")
for h, b in (("add_device_0_ports", "3 devices, 0 ports"), ("add_device_1_port_3", "3 devices, 1 port"), ("add_device_1_port_4", "4 devices, 1 port"), ("add_device_2_ports", "3 devices, 2 ports")):
    K(f"K.device.{h}", "sim__device__h.rs", h, ["C32"], ["DeviceHandler::add_device", "DeviceHandler::get_dev_id"], kind="bounded", bound=b + "; port table fully symbolic", group="dev")
for h, b in (("remove_device_3", "removed id 3"), ("remove_device_4", "removed id 4"), ("remove_device_kbd", "removed id 1 (keyboard)"), ("remove_device_null", "removed id 0"), ("remove_device_absent", "removed id 9 (no such device)")):
    K(f"K.device.{h}", "sim__device__h.rs", h, ["C32"], ["DeviceHandler::remove_device"], kind="bounded",
      bound="5 device slots; arbitrary owner at one concrete port, unowned elsewhere; " + b, group="dev", timeout=1200)
K("K.device.remove_device_multi_port", "sim__device__h.rs", "remove_device_multi_port", ["C32"], ["DeviceHandler::remove_device"], kind="bounded",
  bound="concrete table: device 3 owns three ports, device 4 one; remove 3", group="dev", timeout=1200)
K("K.device.set_kbd_display", "sim__device__h.rs", "set_keyboard_display_contract", ["C32"], ["DeviceHandler::set_keyboard", "DeviceHandler::set_display"], group="dev")
K("K.device.interrupt_leaf", "sim__device__h.rs", "interrupt_leaf", ["C10", "C34"], ["Interrupt::vectored", "Interrupt::priority"], group="dev", replay="native")
K("K.device.poll_arbitration_3", "sim__device__h.rs", "poll_arbitration_3", ["C10"], ["DeviceHandler::poll_interrupt"], kind="bounded", bound="3 device slots", stubs=[SLOT], group="dev")
K("K.device.poll_arbitration_4", "sim__device__h.rs", "poll_arbitration_4", ["C10"], ["DeviceHandler::poll_interrupt"], kind="bounded", bound="4 device slots", stubs=[SLOT], group="dev")
for n in (3, 4):
    K(f"K.device.poll_with_external_{n}", "sim__device__poll.rs", f"poll_with_external_{n}", ["C10", "C34"], ["DeviceHandler::poll_interrupt"], kind="bounded", bound=f"{n} device slots; each reports nothing, a vectored request or an external (host) interrupt",
      stubs=[SLOT], group="poll", timeout=1200)
K("K.device.io_reset_all", "sim__device__h.rs", "io_reset_all", ["C30"], ["DeviceHandler::io_reset"], kind="bounded", bound="4 device slots", stubs=[SLOT], group="dev")

# ------------------------------------------------------------------------------------------------ sim.rs
STEP_FNS = ["Simulator::step", "Simulator::_step_inner", "Simulator::handle_interrupt", "Simulator::call_interrupt",
            "Simulator::call_subroutine", "Simulator::set_pc", "Simulator::offset_pc", "Simulator::set_cc", "Simulator::prefetch_pc",
            "Simulator::default_mem_ctx", "FrameStack::push_frame", "FrameStack::pop_frame", "SimInstr::decode", "PSR::*", "Word ops"]
L2STUBS = ["FrameStack::push_frame=contract: depth + 1, records caller/callee/kind (K.frame.depth, K.frame.debug_frame_*)", "AccessObserver::clear=counted (K.observer.map)", "Simulator::read_mem=L1 contract (obligations K.sim.l1_read_*)", "Simulator::write_mem=L1 contract (obligations K.sim.l1_write_*)",
           "DeviceHandler::poll_interrupt=any pending vectored request or none (K.device.poll_arbitration_*)", RS]
L2ASSUME = ["internal-register map is the default one (PSR@xFFFC, MCR@xFFFE) in L2 obligations",
            "a device port read twice within one step returns the same value (memory is modelled as a function of the address within a step)",
            "debug_frames = false in L2 obligations (debug frames: K.frame.*)",
            "frame depth < 2^64 - 1"]
CLASSES = {"alu": ["C08", "C16", "C28"], "load": ["C08", "C09", "C16", "C28"], "store": ["C08", "C09", "C16", "C28"],
           "control": ["C08", "C16", "C27", "C28", "C09"], "trap": ["C08", "C16", "C27", "C28", "C12"], "rti": ["C08", "C09", "C10", "C16", "C27", "C28"],
           "irq": ["C08", "C10", "C16", "C27", "C28"], "bad": ["C08", "C09", "C16", "C28", "C12"]}
for c, props in CLASSES.items():
    for mode in ("virtual", "real"):
        K(f"K.sim.step_{c}_{mode}", "sim.rs", f"step_{c}_{mode}", sorted(set(props + (["C12"] if mode == "real" and c != "irq" else []) + (["C10"] if mode == "real" and c in ("trap", "bad") else []))), STEP_FNS, args=UF, timeout=1500, stubs=L2STUBS, assumptions=L2ASSUME, group=f"step{c}", replay="native")
K("K.sim.psr_leaf", "sim.rs", "psr_leaf", ["C08"], ["PSR::new/get/set/privileged/priority/cc/is_n/is_z/is_p/set_privileged/set_priority/set_cc/set_cc_n/set_cc_z/set_cc_p"], group="simleaf", args=UF, replay="native")
K("K.sim.sim_leaf", "sim.rs", "sim_leaf", ["C08", "C09", "C16", "C28"], ["Simulator::default_mem_ctx", "MemAccessCtx::omnipotent", "Simulator::set_cc", "Simulator::prefetch_pc"], group="simleaf", args=UF, stubs=[RS])
K("K.sim.in_alloca", "sim.rs", "in_alloca_contract", ["C14", "C16"], ["Simulator::in_alloca"], kind="bounded", bound="<= 2 loaded blocks (sorted, disjoint)", group="simleaf", args=UF, stubs=[RS])
K("K.sim.internal_register", "sim.rs", "internal_register_contract", ["C32"], ["InternalRegister::read", "InternalRegister::write"], group="simleaf", args=UF, stubs=[RS])
L1STUBS = ["<DeviceHandler as ExternalDevice>::io_read/io_write=recording stub: arbitrary result (dispatch contract: K.device.io_*_dispatch)",
           "AccessObserver::update_mem_accesses=recording stub (map contract: K.observer.*)", RS]
L1FN = ["Simulator::read_mem", "Simulator::write_mem"]
K("K.sim.l1_read_empty", "sim.rs", "l1_read_empty_map", ["C08", "C09", "C16", "C28", "C32"], ["Simulator::read_mem"], args=UF, stubs=L1STUBS, group="l1e", timeout=1200)
K("K.sim.l1_write_empty", "sim.rs", "l1_write_empty_map", ["C08", "C09", "C14", "C16", "C28", "C32"], ["Simulator::write_mem"], args=UF, stubs=L1STUBS, group="l1e", timeout=1200)
US = {"hashbrown.*RawTableInner.*find_inner": 2}
K("K.sim.l1_read_default", "sim.rs", "l1_read_default_map", ["C08", "C32"], ["Simulator::read_mem", "InternalRegister::read"], args=UF, stubs=L1STUBS, unwindset=US, timeout=1800)
K("K.sim.l1_write_default", "sim.rs", "l1_write_default_map", ["C08", "C32"], ["Simulator::write_mem", "InternalRegister::write"], args=UF, stubs=L1STUBS, unwindset=US, timeout=1800)
for h in ("strict_vs_lenient_virtual", "strict_vs_lenient_real", "strict_all_init_virtual", "strict_all_init_real"):
    K(f"K.sim.{h}", "sim.rs", h, ["C14"], STEP_FNS + ["Simulator::in_alloca"], args=UF, timeout=1800, stubs=L2STUBS,
      assumptions=L2ASSUME + ["<= 1 loaded block in the strict exemption list (in_alloca itself: K.sim.in_alloca)"], group=h)
K("K.sim.real_vs_virtual", "sim.rs", "real_vs_virtual_step", ["C12"], STEP_FNS, args=UF, timeout=1800, stubs=L2STUBS, assumptions=L2ASSUME, group="rvv")
K("K.sim.entry_then_rti", "sim.rs", "interrupt_entry_then_rti", ["C10"], STEP_FNS, args=UF, timeout=1800, stubs=L2STUBS, assumptions=L2ASSUME, group="etr")
K("K.sim.reset", "sim.rs", "reset_contract", ["C30"], ["Simulator::reset"], args=UF,
  stubs=["Simulator::new_with_mcr=records its arguments, returns a marked fresh machine", "DeviceHandler::io_reset=counted (K.device.io_reset_all)", RS], group="reset")
K("K.sim.reset_register_map", "sim.rs", "reset_keeps_register_map", ["C30"], ["Simulator::reset"], kind="bounded", bound="one concrete mapping (PC@xFE10) before the reset; fresh machine has the default map",
  args=UF, stubs=["Simulator::new_with_mcr=marked fresh machine with the default register map", "DeviceHandler::io_reset=counted", RS], unwindset={"hashbrown": 3}, timeout=2400)
NEWSTUBS = ["MemArray::new=arbitrary memory (its 65536-iteration filler loop cannot be unwound)", "<[Word]>::fill=contract of slice::fill restricted to the one word the harness observes afterwards (symbolic address chosen beforehand, located through the slice position inside the memory array); executed, the 512 updates ran out of memory (> 20 GB)",
            "Simulator::load_os=counted; arbitrary writes below xFE00, os_loaded set (the OS image is an assembled object: no assembled block reaches the I/O page, C02)", "FrameStack::new=records its argument, arbitrary stack (own obligation K.new.frame_stack_new)",
            "<() as WordFiller>::generate, <StdRng as WordFiller>::generate=arbitrary word; <StdRng as SeedableRng>::from_seed=some generator (rand's ChaCha code crashes the Kani compiler when reachable)", RS]
K("K.new.constructor", "sim__new.rs", "new_with_mcr_contract", ["C29", "C30"], ["Simulator::new_with_mcr", "MachineInitStrategy::generator", "RegFile::new", "InternalRegister::default_mmap"], args=UF, stubs=NEWSTUBS, unwindset={"hashbrown": 9}, timeout=1500, native_search="constructor",
  assumptions=["load_os places the OS image (parse_ast o assemble of os.asm, then load_obj_file): not verified"])
K("K.new.deterministic", "sim__new.rs", "new_with_mcr_deterministic", ["C30"], ["Simulator::new_with_mcr"], args=UF, stubs=NEWSTUBS, group="newdet", timeout=1500, kind="bounded", bound="strategy Known { value } (the deterministic one without rand); memory contents not compared (MemArray::new stubbed)")
K("K.sim.step_in_contract", "sim.rs", "step_in_contract", ["C13", "C28", "C08"], ["Simulator::step_in"], args=UF,
  stubs=["Simulator::step=any outcome (contract discharged by K.sim.step_*)", "AccessObserver::clear=counted (K.observer.map)", RS], group="stepin", timeout=1200)
RUNFN = ["Simulator::run_while", "Simulator::run_with_limit", "Simulator::run", "Simulator::step_over", "Simulator::step_out", "Simulator::hit_halt", "Simulator::hit_breakpoint", "Breakpoint::check"]
STEPSTUB = ["Simulator::step=contract: arbitrary outcome; on Ok the counter may advance by one, depth moves by at most one, PC arbitrary, MCR may be cleared (discharged per step by K.sim.step_*)", RS]
for h, b in (("run_with_limit_3", "<= 3 loop iterations, no breakpoint"), ("step_over_3", "<= 3 loop iterations"), ("step_out_3", "<= 3 loop iterations"),
             ("run_3", "<= 3 loop iterations"), ("run_with_limit_3_bp", "<= 3 loop iterations, 1 PC breakpoint")):
    K(f"K.sim.{h}", "sim.rs", h, ["C13"], RUNFN, kind="bounded", bound=b, args=UF, stubs=STEPSTUB, group="runloops", timeout=1200)
for h, b in (("run_with_limit_4", "<= 4 loop iterations, no breakpoint"), ("step_over_4", "<= 4 loop iterations"), ("step_out_4", "<= 4 loop iterations")):
    K(f"K.sim.{h}", "sim.rs", h, ["C13"], RUNFN, kind="bounded", bound=b, args=UF, stubs=STEPSTUB, group="runloops", timeout=2400, tier="thorough", exploratory=True)
K("K.sim.run_while_tripwire_bp", "sim.rs", "run_while_tripwire_adds_breakpoint", ["C13"], RUNFN, kind="bounded", bound="<= 3 loop iterations; the tripwire inserts one PC breakpoint (concrete address) on its first call",
  args=UF, stubs=STEPSTUB, group="runloops", timeout=1500)
K("K.sim.mmap_internal_twice", "sim.rs", "mmap_internal_twice", ["C32"], ["Simulator::mmap_internal"], kind="bounded", bound="empty map; two mappings at the concrete address xFE10; register kinds symbolic",
  args=UF, stubs=[RS], unwindset={"hashbrown": 3}, timeout=2400)
K("K.sim.mmap_internal_empty_nonio", "sim.rs", "mmap_internal_empty_nonio", ["C32"], ["Simulator::mmap_internal", "Simulator::munmap_internal"], kind="bounded",
  bound="empty map; non-I/O address x3000 (concrete keys: SipHash of a symbolic key is out of reach); register kind symbolic", args=UF, stubs=[RS], group="mmap", timeout=1200)
for h, b in (("mmap_internal_empty_free", "empty map; address xFE10"), ("mmap_internal_empty_other", "empty map; address xFE10, probe xFE20"),
             ("mmap_internal_default_free", "default map; free address xFE10, probe xFFFC"), ("mmap_internal_default_taken", "default map; occupied address xFFFC, probe xFFFE")):
    K(f"K.sim.{h}", "sim.rs", h, ["C32"], ["Simulator::mmap_internal", "Simulator::munmap_internal"], kind="bounded", bound=b + " (concrete keys); register kind symbolic",
      args=UF, stubs=[RS], unwindset={"hashbrown": 3}, timeout=2400, tier="quick" if "empty" in h else "thorough", exploratory="default" in h)

# ------------------------------------------------------------------------------------------------ sim/debug.rs, sim/observer.rs, timer
K("K.debug.comparator", "sim__debug.rs", "comparator_check", ["C13"], ["Comparator::check"], group="dbg", args=UF, replay="native")
K("K.debug.breakpoint", "sim__debug.rs", "breakpoint_check", ["C13"], ["Breakpoint::check"], group="dbg", args=UF, stubs=[RS])
K("K.observer.access_set", "sim__observer.rs", "access_set_leaf", ["C28"], ["AccessSet::read/written/modified/accessed", "<AccessSet as BitOr>::bitor", "<AccessSet as BitOrAssign>::bitor_assign"], group="obs", replay="native")
K("K.observer.map", "sim__observer.rs", "observer_map_two_updates", ["C28"], ["AccessObserver::new", "AccessObserver::update_mem_accesses", "AccessObserver::get_mem_accesses", "AccessObserver::clear"],
  kind="bounded", bound="2 updates", group="obs")
K("K.observer.take", "sim__observer.rs", "observer_take", ["C28"], ["AccessObserver::take_mem_accesses"], kind="bounded", bound="1 update", group="obs")
K("K.timer.seed_determines_generator", "sim__device__timer__seed.rs", "seed_determines_generator", ["C34"], ["TimerDevice::new", "<StdRng as SeedableRng>::seed_from_u64 (rand_core's expansion of the u64 seed runs for real)"], kind="bounded",
  bound="two concrete ranges (5..=5 and 3..=7), one concrete seed; vector, priority and the generator's output words symbolic", group="timerseed", timeout=1800,
  stubs=["<StdRng as SeedableRng>::from_seed=records the 32 seed bytes, returns a zeroed generator (never consulted)", "<StdRng as RngCore>::next_u32/next_u64=arbitrary words"],
  assumptions=["StdRng (ChaCha12, crate rand) is deterministic in its seed: the sequence of draws is a function of the seed bytes, the ranges asked for and the order of draws"])
K("K.timer.sample_range", "sim__device__timer.rs", "sample_range_new", ["C34"], ["SampleRange::new", "<SampleRange as RangeBounds<u32>>::start_bound/end_bound"], group="timer", replay="native")

for h, b in (("keyboard_0", "empty input buffer"), ("keyboard_1", "1 byte waiting"), ("keyboard_2", "2 bytes waiting"), ("keyboard_locked", "buffer lock held by the caller")):
    K(f"K.kbd.{h}", "sim__device__keyboard.rs", h, ["C16", "C32"], ["<BufferedKeyboard as ExternalDevice>::io_read/io_write/io_reset/poll_interrupt", "<DevWrapper<K, dyn KeyboardDevice> as ExternalDevice>::*", "BufferedKeyboard::try_input", "<BufferedKeyboard as KeyboardDevice>::*"],
      kind="bounded", bound=b, group="kbd", timeout=900, assumptions=["single-threaded: lock contention from other threads is C33 (not applicable)", "unsafe transmute in DevWrapper::wrap verified through by CBMC's pointer checks"])
for h, b in (("display_0", "empty output buffer"), ("display_2", "2 bytes already output"), ("display_locked", "buffer lock held by the caller")):
    K(f"K.disp.{h}", "sim__device__display.rs", h, ["C16", "C32"], ["<BufferedDisplay as ExternalDevice>::io_read/io_write/io_reset/poll_interrupt", "<DevWrapper<D, dyn DisplayDevice> as ExternalDevice>::*", "BufferedDisplay::try_output", "<BufferedDisplay as DisplayDevice>::*"],
      kind="bounded", bound=b, group="disp", timeout=900, assumptions=["single-threaded: lock contention from other threads is C33 (not applicable)"])

for h, b in (("sample_exclusive_5_6", "range 5..6"), ("sample_exclusive_3_7", "range 3..7"), ("sample_inclusive_3_7", "range 3..=7"), ("sample_inclusive_50_50", "range 50..=50")):
    K(f"K.timer.{h}", "sim__device__timer.rs", h, ["C34"], ["TimerDevice::try_generate_time", "TimerDevice::reset_remaining"], kind="bounded", bound=b + " (concrete); generator output words symbolic; rand's range reduction verified through",
      stubs=["<StdRng as RngCore>::next_u32/next_u64=arbitrary words (ChaCha not executed)"], group="timer", timeout=900)

# ------------------------------------------------------------------------------------------------ parse.rs
FMT = "alloc::fmt::format=panics (error-message formatting must be unreachable: a checked claim)"
for h, fn in (("convert_imm5", "Offset<i16,5>"), ("convert_offset6", "Offset<i16,6>"), ("convert_pcoffset9", "Offset<i16,9>"), ("convert_pcoffset11", "Offset<i16,11>"),
              ("convert_trapvect8", "Offset<u16,8>"), ("convert_addr16", "Offset<u16,16>")):
    K(f"K.parse.{h}", "parse.rs", h, ["C05"], [f"<{fn} as TokenParse>::match_", f"<{fn} as TokenParse>::convert"], stubs=[FMT], group="parse")
K("K.parse.int_literal", "parse.rs", "int_literal_either_sign", ["C05"], ["<IntLiteral as TokenParse>::match_"], stubs=[FMT], group="parse")
K("K.parse.reg_token", "parse.rs", "reg_token_match", ["C05"], ["<Reg as TokenParse>::match_"], stubs=["alloc::fmt::format=returns an empty string (message text is not part of the contract)"], group="parse")

for h, fn, b in [(f"lex_reg_{d}", "lex_reg", f"R/r followed by {d} digits") for d in (1, 2, 3, 4)] + \
                [(f"lex_udec_{d}", "lex_unsigned_dec", f"optional # and {d} decimal digits") for d in (1, 3, 5, 6)] + \
                [(f"lex_sdec_{d}", "lex_signed_dec", f"optional #, minus sign and {d} decimal digits") for d in (1, 5)] + \
                [(f"lex_uhex_{d}", "lex_unsigned_hex", f"X/x and {d} hex digits (either case)") for d in (1, 4, 5)] + \
                [("lex_shex_4", "lex_signed_hex", "X/x, minus sign and 4 hex digits")]:
    K(f"K.lex.{h}", "parse__lex.rs", h, ["C05"], [fn, "convert_int_error"], kind="bounded", bound=b + "; validator called directly under its token regex's precondition (DFA not executed)", group="lex", timeout=900)

# ------------------------------------------------------------------------------------------------ asm.rs
UP = "str::to_uppercase=panics (label arm must be unreachable when all operands are numeric: a checked claim)"
K("K.asm.word_len", "asm.rs", "directive_word_len", ["C01"], ["Directive::word_len"], kind="complete", bound=".stringz part bounded: <= 4 ASCII bytes", group="asm")
K("K.asm.word_len_multibyte", "asm.rs", "directive_word_len_multibyte", ["C01"], ["Directive::word_len"], kind="bounded", bound="one concrete 3-character / 6-byte string", group="asm")
K("K.asm.into_sim_instr", "asm.rs", "into_sim_instr_table", ["C01"], ["AsmInstr::into_sim_instr", "replace_pc_offset (numeric arm)"], stubs=[UP, RS], group="asm")
K("K.asm.numeric_offset", "asm.rs", "numeric_offset_passthrough", ["C01"], ["replace_pc_offset"], stubs=[UP, RS], group="asm")
for v, tier in (("nop", "quick"), ("br", "quick"), ("jsr", "quick"), ("ld", "quick"), ("ldi", "quick"), ("lea", "quick"), ("st", "quick"), ("sti", "quick")):
    K(f"K.asm.undefined_label_{v}", "asm.rs", f"undefined_label_{v}", ["C02", "C26"], ["AsmInstr::into_sim_instr", "replace_pc_offset"], kind="bounded",
      bound=f"empty symbol table, one-letter label name; instruction {v.upper()}, registers / condition codes / PC symbolic", stubs=[RS], timeout=1800, tier=tier)
K("K.asm.ranges_overlap", "asm.rs", "ranges_overlap_contract", ["C02"], ["ranges_overlap"], group="asm", replay="native")
K("K.asm.disassemble", "asm.rs", "disassemble_reassemble", ["C07"], ["disassemble_line", "try_disassemble_line", "AsmInstr::into_sim_instr", "SimInstr::encode", "SimInstr::decode"], stubs=[UP, RS], group="asm7", timeout=1200)
for n in (9, 11):
    for v, b, tier in (("lower", "entry A, query a", "quick" if n == 9 else "thorough"), ("upper", "entry A, query A", "thorough"), ("absent", "entry B, query A/a (label not defined)", "thorough")):
        K(f"K.asm.label_offset_{n}_{v}", "asm.rs", f"label_offset_{n}_{v}", ["C01", "C02", "C26"], ["replace_pc_offset"], kind="bounded",
          bound="symbol table with one label (one-letter name): " + b + "; addresses, PC and external flag symbolic", stubs=[RS], timeout=1800, tier=tier)
for h in ("source_info_0_0", "source_info_3_0", "source_info_3_1", "source_info_6_2", "source_info_8_2"):
    K(f"K.asm.{h}", "asm.rs", h, ["C25"], ["SourceInfo::count_lines", "SourceInfo::raw_line_span", "SourceInfo::get_line", "SourceInfo::get_pos_pair"],
      kind="bounded", bound="text of %s bytes with %s newlines at symbolic positions" % tuple(h.split("_")[2:]), group="src", replay="native")
OBJB = "ObjBlock and its impls are items nested inside ObjectFile::new: their text is copied verbatim from /repo on every run into a generated module; the statement loop of pass 2 (which directive is written where, block bookkeeping, overlap test) is not covered"
UPPER = "str::to_uppercase -> fails when reached (checked unreachable: the directive carries no label operand)"
for h, b, kind in (("write_fill", "", "complete"), ("write_nothing_orig", "", "complete"), ("write_nothing_end", "", "complete"), ("write_nothing_external", "one-letter label name", "bounded"),
             ("write_blkw_1", ".blkw 1", "bounded"), ("write_blkw_4", ".blkw 4", "bounded"), ("write_stringz_0", "empty string", "bounded"),
             ("write_stringz_3", "3 symbolic ASCII bytes", "bounded"), ("write_fill_undefined_label", "empty symbol table, one-letter label", "bounded"),
             ("block_range", "block of 3 words", "bounded"), ("write_fill_defined_label", "one-label table, one-letter name, concrete spellings", "bounded")):
    lab = "label" in h
    K(f"K.objblock.{h}", "asm__objblock.rs", h, ["C01"] + (["C02", "C26"] if "undefined" in h else []), ["ObjBlock::write_directive", "ObjBlock::push", "ObjBlock::shift", "<ObjBlock as Extend<u16>>::extend", "ObjBlock::range", "Directive::word_len"] + (["SymbolTable::lookup_label"] if lab else []),
      kind=kind, bound=b or None, stubs=[RS] + ([] if lab or h == "block_range" else [UPPER]), assumptions=[OBJB], group="objblock", timeout=1500, tier="quick", replay="native")
EXTR = "add_label is nested inside SymbolTable::new: its text is copied verbatim from /repo on every run into a generated module (only `pub(crate)` prepended); the call sites in the statement loop are not covered"
K("K.asm.add_label_vacant", "asm.rs", "add_label_vacant", ["C02", "C23"], ["add_label (nested in SymbolTable::new)"], kind="bounded", bound="empty table; name 'Ab'; address, span start, external flag symbolic", stubs=[RS], assumptions=[EXTR], timeout=1800)
for k in (1, 2, 3, 4):
    K(f"K.asm.get_line_{k}", "asm.rs", f"get_line_{k}", ["C25"], ["SourceInfo::get_line"], kind="bounded", bound=f"newline table of {k} entries; entries and index symbolic", group="src", timeout=900)
K("K.asm.get_line_7", "asm.rs", "get_line_7", ["C25"], ["SourceInfo::get_line"], kind="bounded", bound="newline table of 7 entries", group="src", timeout=900, tier="thorough")
for h in ("source_info_8_1", "source_info_5_2"):
    K(f"K.asm.{h}", "asm.rs", h, ["C25"], ["SourceInfo::count_lines", "SourceInfo::raw_line_span", "SourceInfo::get_line", "SourceInfo::get_pos_pair"],
      kind="bounded", bound="text of %s bytes with %s newlines at symbolic positions" % tuple(h.split("_")[2:]), group="src", replay="native", tier="thorough")
for h in ("line_span_2_0", "line_span_3_1", "line_span_4_1"):
    K(f"K.asm.{h}", "asm.rs", h, ["C25"], ["SourceInfo::line_span", "SourceInfo::read_line", "SourceInfo::raw_line_span"], kind="bounded",
      bound="ASCII text of %s symbolic bytes with %s newline(s)" % tuple(h.split("_")[2:]), group="src", timeout=1200)
for v in ("upper", "lower", "other"):
    K(f"K.asm.symtab_lookup_{v}", "asm.rs", f"symtab_lookup_{v}", ["C23"], ["SymbolTable::lookup_label"], kind="bounded", bound=f"one label named Q; query spelling: {v}", stubs=[RS], timeout=1800)
    K(f"K.asm.symtab_source_{v}", "asm.rs", f"symtab_source_{v}", ["C23"], ["SymbolTable::get_label_source", "SymbolData::span"], kind="bounded", bound=f"one label named Q; query spelling: {v}", stubs=[RS], timeout=1800)
K("K.asm.symtab_rev_iter", "asm.rs", "symtab_rev_lookup_and_iter", ["C23"], ["SymbolTable::rev_lookup_label", "SymbolTable::label_iter"], kind="bounded", bound="one label", stubs=[RS], group="symrev", timeout=1800)

# ------------------------------------------------------------------------------------------------ err.rs, asm/encoding.rs
for h in ("errspan_from_array_0", "errspan_from_array_1", "errspan_from_array_2", "errspan_from_array_3", "errspan_from_span",
          "errspan_from_vec_0", "errspan_from_vec_1", "errspan_from_vec_2", "errspan_from_vec_3", "errspan_extend_0", "errspan_extend_1", "errspan_extend_2", "errspan_extend_3"):
    K(f"K.err.{h}", "err.rs", h, ["C26"], ["ErrSpan::first", "ErrSpan::iter", "<ErrSpan as From<..>>::from", "<ErrSpan as Extend<Span>>::extend"],
      kind="complete", bound="one list length per obligation (0..=3 spans / 1+0..=3 spans), span contents symbolic", group="err", replay="native", timeout=600)
K("K.enc.count_digits", "asm__encoding.rs", "count_digits_contract", ["C19"], ["count_digits"], group="enc", replay="native")
for h in ("split_0", "split_3", "split_8", "take_2_of_1", "take_2_of_5", "take_8_of_8", "take_8_of_7", "take_1_of_0", "map_chunks_3", "map_chunks_2", "sorted_no_dup"):
    K(f"K.enc.{h}", "asm__encoding.rs", h, ["C19"], ["take", "take_slice", "try_split_at", "map_chunks", "assert_sorted_no_dup"], kind="bounded", bound="slices of <= 8 bytes", group="enc")
# (kani/asm__encoding__deser.rs -- BinaryFormat::deserialize on header + one record -- is not registered: every harness ran out of memory, DESIGN section 8)

# ------------------------------------------------------------------------------------------------ Verus units
Vv("V.shift", "shift", ["C01", "C02"], ["Cursor::shift (nested in SymbolTable::new)"], 3, native_search="shift",
   assumptions=["core::mem::take and u16::wrapping_neg: assumed specifications (documented behaviour)", "Verus integer types are range-checked mathematical integers"])
Vv("V.srcinfo", "srcinfo", ["C25"], ["SourceInfo::count_lines", "SourceInfo::raw_line_span", "SourceInfo::get_pos_pair"], 3, native_search="srcinfo",
   assumptions=["SourceInfo::get_line: assumed contract (partition point of the newline table), checked against the real body by the bounded obligations K.asm.get_line_*",
                "invariant wf (newline table strictly increasing, non-empty, last entry = text length <= isize::MAX) is established by SourceInfo::from_string: assumed (str scanning)",
                "field src: String represented by an opaque type with a specified len()"])
Vv("V.timer", "timer", ["C34"], ["TimerDevice::poll_interrupt", "TimerDevice::reset_remaining", "TimerDevice::io_reset"], 8, native_search="timer",
   assumptions=["TimerDevice::try_generate_time (rand crate): assumed contract 'result inside the configured range, nothing else changes'",
                "ranges containing 0 are outside the interval lemma's precondition (stated)", "Interrupt::vectored represented by its contract (K.device.interrupt_leaf)"])

# ------------------------------------------------------------------------------------------------ properties
TRUST = "rustc/Kani/CBMC/CaDiCaL trusted; std verified through unless a stub is listed"
PROPS = {
 "C01": ("proof", "Mechanism functions under contract: encode = ISA bits, opcode, alias table, directive sizes, location-counter arithmetic (Verus, unbounded). The block writer of pass 2 (ObjBlock, nested items extracted verbatim): .fill value / label address, .blkw n reserved words, .stringz bytes + zero word, every directive emits exactly word_len words (bounded sizes). Pass-1/pass-2 statement loops (HashMap<String,_>/BTreeMap plumbing) are assumed, incl. the lc+1 call site; label-offset contract is bounded (1 label)."),
 "C02": ("proof", "Arithmetic and range conditions: Cursor::shift (Verus, unbounded: accepted iff non-empty block stays below xFE00 without wrapping; error kind), ranges_overlap (complete). Structural conditions (nesting, duplicate labels, neighbour search) live in the pass loops: assumed."),
 "C05": ("proof", "Value -> field conversions for every field width used, .fill literal and register token: complete over all token values. Text -> value: the lexer's validators (lex_reg, lex_unsigned_dec, lex_signed_dec, lex_unsigned_hex, lex_signed_hex) called directly under their token regex's precondition, bounded by literal length (1-6 digits). Which validator the logos DFA dispatches to is assumed."),
 "C06": ("proof", "Complete: loop-free harnesses over every 16-bit word and every representable instruction against an independent ISA reference."),
 "C07": ("proof", "Structural leg complete over all 65536 words: disassemble_line / try_disassemble_line, then into_sim_instr(any pc).encode() gives the word back; .fill for words below x0200 and non-instructions; aliases by name. The print -> lex -> parse leg (Display, logos) is assumed."),
 "C08": ("proof", "Modular: read_mem/write_mem against their contract (L1), then every step from every machine state, all opcodes, interrupts, real and virtual traps against an independent ISA reference with the memory accessors replaced by that contract (L2); leaf contracts for PSR, set_cc, decode."),
 "C09": ("proof", "Modular: access-check contract of read_mem/write_mem (L1: error iff user mode and outside x3000..xFDFF; then nothing reached), every access of every step carries the privilege of its mode and is one the ISA prescribes (L2), RTI in user mode is a privilege violation."),
 "C10": ("proof", "Per-step mechanism: gate (taken iff priority above current, only at the step start, polled once), entry state, entry followed by RTI restores everything (2-step lemma); arbitration bounded to 4 device slots. TRAP and exception entry (real traps) leave the priority field alone. Handlers with bodies are guest programs: not claimed."),
 "C12": ("proof", "Step level: a step that neither halts nor raises an exception under virtual traps is identical under real traps (relational, all states); HALT/exception entry under real traps is the entry sequence of C08. OS message printing is guest code: not claimed."),
 "C13": ("other", "Run loops are a bounded stand-in (<= 3 iterations, thorough 4; Simulator::step replaced by its contract): stops exactly when the documented condition holds at an instruction boundary, no step is taken once it holds, nothing is changed between steps, a breakpoint added mid-run by the tripwire stops the run, step_out at depth 0 does nothing. step_in against step's contract and the breakpoint predicates (Comparator::check, Breakpoint::check) are complete."),
 "C14": ("proof", "Relational, per step, all states: strict vs non-strict run over the same memory function; in_alloca bounded (<= 2 blocks); strict branch of write_mem in L1."),
 "C15": ("proof", "Complete: relational loop-free harness over two pairs of agreeing words and all four operations."),
 "C16": ("proof", "Panic-freedom (overflow, bounds, unwrap) of every verified body from any machine state, incl. prefetch_pc after the step; inductive over histories."),
 "C19": ("other", "Partial, bounded: binary reader's slice helpers never panic and split exactly (slices <= 8 bytes); count_digits total (complete); copy_obj_block never panics and places blocks exactly, incl. blocks wrapping past xFFFF (concrete shapes). The readers as a whole, the text format, link arithmetic are not covered."),
 "C23": ("other", "Bounded stand-in: one-label tables built directly, one obligation per query spelling (upper, lower, other name) for lookup_label and get_label_source; rev_lookup_label and label_iter; pass 1's add_label (extracted verbatim) for a new name."),
 "C25": ("proof", "Index arithmetic unbounded (Verus on the verbatim bodies of count_lines, raw_line_span, get_pos_pair: any text length, any number of lines, any index, incl. past the end), against the assumed contract of get_line which is checked bounded (<= 4 table entries) by Kani; the same arithmetic is also cross-checked by bounded Kani obligations on directly built tables; trimming bounded (<= 4 ASCII bytes). from_string's newline scan (the invariant of the table) is assumed."),
 "C26": ("proof", "Span container: every ErrSpan constructible through its public From/Extend impls (incl. the empty list both link errors carry) supports first() and iter() without panic. Call sites assumed."),
 "C27": ("proof", "Depth delta and the content of every entered frame (caller = calling / interrupted instruction, callee = subroutine start or vector, kind) are part of the ISA reference of every step (L2, push_frame replaced by its contract); push/pop leaf contract; debug frames without signature, get_arguments (<= 2 parameters) and the choice of signature table per frame kind (one trap signature registered, concrete kind/address per obligation) bounded. Re-registration of a signature and the built-in trap signatures are assumed."),
 "C28": ("proof", "Observer calls exact in read_mem/write_mem (L1), every program access tracked and the access set is the ISA's (L2); observer map bounded (2 updates)."),
 "C29": ("other", "Partial, bounded: MemArray::copy_obj_block (the function that places one block of the image) sets exactly the block's initialized words, marks its reserved words uninitialized and leaves every other word unchanged, incl. blocks that wrap past xFFFF -- for concrete start addresses and shapes (6 obligations), values / old memory / probe symbolic. The constructor new_with_mcr: OS loaded once, every word of the I/O page an initialized zero (symbolic probe, all strategies), with the 64K filler, slice::fill, load_os and FrameStack::new stubbed. load_obj_file's loop over blocks, the external-symbol check and 'a new simulator holds the OS image' are not covered."),
 "C30": ("proof", "reset against new_with_mcr's contract (recording stub): constructor called once with the same flags and the same MCR handle; all architectural state (registers, PC, PSR, saved SP, frame depth, instruction count, memory at a symbolic probe, halt/breakpoint status) is the fresh machine's; device handler moved across; register map kept by content (one concrete mapping, bounded). The constructor body against its own contract (flags and MCR handle as given, counter 0, not halted, I/O page clear; deterministic for the Known strategy) with the 64K filler, slice::fill, load_os, FrameStack::new and rand stubbed."),
 "C32": ("proof", "Port-table representation invariant at symbolic witness ports: dispatch reaches the owner exactly once; add/remove/replace preserve it (device counts bounded); internal registers win over devices (L1, empty and default map); mmap/munmap with concrete addresses incl. a second mapping of an occupied address; the real keyboard and display devices against their register contracts."),
 "C34": ("proof", "Unbounded (Verus): countdown step contract on the verbatim bodies + interval/first-interrupt lemmas by induction. Kani: SampleRange::new leaf; try_generate_time draws inside the configured range (rand's range reduction verified through, four concrete ranges); every device polled exactly once per boundary also with external interrupts present; a timer constructed with Some(seed) builds its generator from that seed alone (one concrete seed, two concrete ranges) -- that StdRng is deterministic in its seed is assumed."),
 "C35": ("proof", "Complete: 32 loop-free harnesses (N=1..16, signed/unsigned) over the full 16-bit input domain."),
}
props = {k: {"level": lv, "explanation": ex, "assumptions": [TRUST]} for k, (lv, ex) in PROPS.items()}

if __name__ == "__main__":
    ids = [o["id"] for o in OBL]
    assert len(ids) == len(set(ids)), "duplicate obligation id"
    with open(os.path.join(V, "obligations.json"), "w") as f:
        json.dump({"properties": props, "obligations": OBL}, f, indent=1)
    print(len(OBL), "obligations,", len(props), "properties")
