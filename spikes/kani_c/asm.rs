}
#[cfg(kani)]
mod verif_kani {
    use super::*;

    pub(crate) fn stub_random_state() -> std::hash::RandomState {
        unsafe { std::mem::transmute::<[u64; 2], std::hash::RandomState>([0, 0]) }
    }

    // C25: SourceInfo index arithmetic on a directly built table
    #[kani::proof]
    #[kani::unwind(8)]
    fn source_info_pos_pair() {
        let len: usize = kani::any();
        kani::assume(len <= 6);
        let n: usize = kani::any();
        kani::assume(n <= 2);
        let a: usize = kani::any(); let b: usize = kani::any();
        kani::assume(a < b && b < len);
        let mut nl = Vec::new();
        if n >= 1 { nl.push(a); }
        if n >= 2 { nl.push(b); }
        nl.push(len);
        let mut src = String::new();
        let mut i = 0; while i < 6 { if i < len { src.push('a'); } i += 1; }
        let si = SourceInfo { src, nl_indices: nl };
        assert!(si.count_lines() == n + 1);
        let idx: usize = kani::any();
        kani::assume(idx <= len + 10);
        let (l, c) = si.get_pos_pair(idx);
        // line start of line k: 0 for k = 0, else nl[k-1] + 1
        let start = |k: usize| if k == 0 { 0 } else if k == 1 { a + 1 } else { b + 1 };
        assert!(l <= n);                 // never past the last line
        assert!(start(l) + c == idx);    // column measured from that line's start
        if idx <= len && l < n { let nl_l = if l == 0 { a } else { b }; assert!(idx <= nl_l); }
    }

    // C01 gap: pass-2 call site passes lc+1; layout = orig + sizes
    #[kani::proof]
    #[kani::stub(std::hash::RandomState::new, stub_random_state)]
    #[kani::unwind(8)]
    fn pass2_callsite_label() {
        let orig: u16 = kani::any();
        kani::assume(orig <= 0xF000);
        let v: u16 = kani::any();
        let mut label_map = HashMap::new();
        label_map.insert(String::from("A"), SymbolData { addr: orig.wrapping_add(2), src_start: 0, external: false });
        let sym = SymbolTable { label_map, rel_map: HashMap::new(), debug_symbols: None };
        let ast = vec![
            Stmt { labels: vec![], nucleus: StmtKind::Directive(Directive::Orig(Offset::new_trunc(orig))), span: 0..5 },
            Stmt { labels: vec![], nucleus: StmtKind::Instr(AsmInstr::LD(Reg::R3, PCOffset::Label(crate::ast::Label::new(String::from("A"), 9..10)))), span: 6..10 },
            Stmt { labels: vec![], nucleus: StmtKind::Instr(AsmInstr::HALT), span: 11..15 },
            Stmt { labels: vec![], nucleus: StmtKind::Directive(Directive::Fill(PCOffset::Offset(Offset::new_trunc(v)))), span: 16..20 },
            Stmt { labels: vec![], nucleus: StmtKind::Directive(Directive::End), span: 21..25 },
        ];
        let obj = ObjectFile::new(ast, sym, false);
        assert!(obj.is_ok());
        let obj = obj.unwrap();
        let probe: u16 = kani::any();
        let got = obj.addr_iter().find(|&(a, _)| a == probe).map(|(_, w)| w);
        if probe == orig { assert!(got == Some(Some(0x2600 | 1))); }            // LD R3, #+1  (A - (orig+1) = 1)
        else if probe == orig.wrapping_add(1) { assert!(got == Some(Some(0xF025))); }
        else if probe == orig.wrapping_add(2) { assert!(got == Some(Some(v))); }
        else { assert!(got.is_none()); }
    }

    // C25 (second formulation): concrete text length / line count, symbolic newline positions and index
    fn source_info_case<const LEN: usize, const N: usize>() {
        let a: usize = kani::any(); let b: usize = kani::any();
        kani::assume(a < b && b < LEN.max(1) + 0);
        let mut nl = Vec::with_capacity(3);
        if N >= 1 { nl.push(a); }
        if N >= 2 { nl.push(b); }
        nl.push(LEN);
        let src = "aaaaaa"[..LEN].to_string();
        let si = SourceInfo { src, nl_indices: nl };
        assert!(si.count_lines() == N + 1);
        let idx: usize = kani::any();
        kani::assume(idx <= LEN + 10);
        let (l, c) = si.get_pos_pair(idx);
        let start = |k: usize| if k == 0 { 0 } else if k == 1 { a + 1 } else { b + 1 };
        assert!(l <= N);
        assert!(start(l) + c == idx);
    }
    #[kani::proof] #[kani::unwind(8)] fn source_info_6_2() { source_info_case::<6, 2>() }
    #[kani::proof] #[kani::unwind(8)] fn source_info_3_0() { source_info_case::<3, 0>() }

    // C07: structural disassemble/reassemble
    fn unreachable_upper(_s: &str) -> String { panic!("label arm must be unreachable in this harness") }
    #[kani::proof]
    #[kani::stub(std::hash::RandomState::new, stub_random_state)]
    #[kani::stub(str::to_uppercase, unreachable_upper)]
    #[kani::unwind(8)]
    fn disassemble_reassemble() {
        let w: u16 = kani::any();
        let pc: u16 = kani::any();
        let sym = SymbolTable { label_map: HashMap::new(), rel_map: HashMap::new(), debug_symbols: None };
        let st = crate::ast::asm::disassemble_line(w);
        assert!(st.labels.is_empty());
        match st.nucleus {
            StmtKind::Instr(i) => {
                assert!(w >= 0x0200);
                let s = i.into_sim_instr(pc, &sym);
                assert!(s.is_ok());
                assert!(s.unwrap().encode() == w);
            }
            StmtKind::Directive(Directive::Fill(PCOffset::Offset(o))) => {
                assert!(o.get() == w);
                assert!(w < 0x0200 || SimInstr::decode(w).is_err());
            }
            _ => assert!(false),
        }
    }
}
