// Kani contracts for src/sim/device/display.rs (overlaid as `crate::sim::device::display::verif_kani`).
// The real `BufferedDisplay` device (DSR/DDR) against its register contract, single-threaded (C16, C32).
// BOUNDED: output buffer of <= 2 bytes before the write (capacity pre-reserved).
use super::*;

fn disp_with(n: usize, b0: u8, b1: u8) -> BufferedDisplay {
    let mut v = Vec::with_capacity(4);
    if n >= 1 { v.push(b0); }
    if n >= 2 { v.push(b1); }
    BufferedDisplay { buffer: Arc::new(RwLock::new(v)) }
}
fn display_case<const N: usize>() {
    let (b0, b1): (u8, u8) = (kani::any(), kani::any());
    let mut d = disp_with(N, b0, b1);
    assert!(d.io_read(DSR, kani::any()) == Some(0x8000), "disp.DSR: ready (bit 15) whenever the buffer can be written");
    assert!(d.poll_interrupt().is_none(), "disp.int: the display never interrupts");
    let other: u16 = kani::any();
    kani::assume(other != DSR && other != DDR);
    assert!(d.io_read(other, kani::any()).is_none() && !d.io_write(other, kani::any()), "disp.other: other ports are not the display's");
    assert!(d.io_read(DDR, kani::any()).is_none() && !d.io_write(DSR, kani::any()), "disp: DDR is write-only, DSR read-only");
    let w: u16 = kani::any();
    assert!(d.io_write(DDR, w), "disp.DDR: a write is accepted");
    {
        let g = d.buffer.try_read().unwrap();
        assert!(g.len() == N + 1 && g[N] == w as u8, "disp.DDR: exactly the low byte is appended, once");
        if N >= 1 { assert!(g[0] == b0, "disp.DDR: earlier output kept, in order"); }
        if N >= 2 { assert!(g[1] == b1, "disp.DDR: earlier output kept, in order"); }
    }
    d.io_reset();
    assert!(d.buffer.try_read().unwrap().is_empty(), "disp.reset: output cleared");
}
#[kani::proof] #[kani::unwind(6)] fn display_0() { display_case::<0>() }
#[kani::proof] #[kani::unwind(6)] fn display_2() { display_case::<2>() }
#[kani::proof] #[kani::unwind(6)]
fn display_locked() {
    let mut d = disp_with(1, kani::any(), 0);
    let buf = Arc::clone(&d.buffer);
    let guard = buf.try_write().unwrap();
    assert!(d.io_read(DSR, kani::any()) == Some(0), "disp.locked: not ready while the buffer is locked");
    assert!(!d.io_write(DDR, kani::any()), "disp.locked: a write is refused (reported unsuccessful), not lost silently");
    d.io_reset();
    assert!(guard.len() == 1, "disp.locked: nothing changed behind the holder's back");
}
