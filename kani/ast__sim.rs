// Kani contracts for src/ast/sim.rs (overlaid as `crate::ast::sim::verif_kani`).
// C06 (decode is the exact inverse of encode), C01-(ii) (encode = ISA bit layout).
// The reference (`isa_*`) is written from the LC-3 ISA table (Patt & Patel, App. A) with plain shifts;
// it shares no code with `join_bits` / `DecodeUtils`.
use super::*;
use crate::ast::Offset;

pub(crate) fn any_reg() -> Reg {
    let n: u8 = kani::any();
    kani::assume(n < 8);
    Reg::try_from(n).unwrap()
}
pub(crate) fn any_ioff<const N: u32>() -> IOffset<N> {
    let v: i16 = kani::any();
    let lo = -(1i32 << (N - 1));
    let hi = (1i32 << (N - 1)) - 1;
    kani::assume((v as i32) >= lo && (v as i32) <= hi);
    Offset::new(v).unwrap()
}
pub(crate) fn any_imm_or_reg<const N: u32>() -> ImmOrReg<N> {
    if kani::any() { ImmOrReg::Imm(any_ioff::<N>()) } else { ImmOrReg::Reg(any_reg()) }
}
/// Every representable instruction (all 15 variants, every operand value).
pub(crate) fn any_instr() -> SimInstr {
    let k: u8 = kani::any();
    kani::assume(k < 15);
    match k {
        0 => { let cc: u8 = kani::any(); kani::assume(cc < 8); SimInstr::BR(cc, any_ioff::<9>()) }
        1 => SimInstr::ADD(any_reg(), any_reg(), any_imm_or_reg::<5>()),
        2 => SimInstr::LD(any_reg(), any_ioff::<9>()),
        3 => SimInstr::ST(any_reg(), any_ioff::<9>()),
        4 => SimInstr::JSR(any_imm_or_reg::<11>()),
        5 => SimInstr::AND(any_reg(), any_reg(), any_imm_or_reg::<5>()),
        6 => SimInstr::LDR(any_reg(), any_reg(), any_ioff::<6>()),
        7 => SimInstr::STR(any_reg(), any_reg(), any_ioff::<6>()),
        8 => SimInstr::RTI,
        9 => SimInstr::NOT(any_reg(), any_reg()),
        10 => SimInstr::LDI(any_reg(), any_ioff::<9>()),
        11 => SimInstr::STI(any_reg(), any_ioff::<9>()),
        12 => SimInstr::JMP(any_reg()),
        13 => SimInstr::LEA(any_reg(), any_ioff::<9>()),
        _ => { let v: u16 = kani::any(); kani::assume(v < 256); SimInstr::TRAP(Offset::new(v).unwrap()) }
    }
}

/// ISA: the word is a canonical encoding of some instruction.
pub(crate) fn isa_canonical(w: u16) -> bool {
    match w >> 12 {
        0b0001 | 0b0101 => (w & 0x0020) != 0 || (w & 0x0018) == 0,
        0b0100 => (w & 0x0800) != 0 || (w & 0x0E3F) == 0,
        0b1000 => (w & 0x0FFF) == 0,
        0b1001 => (w & 0x003F) == 0x003F,
        0b1100 => (w & 0x0E3F) == 0,
        0b1101 => false,
        0b1111 => (w & 0x0F00) == 0,
        _ => true,
    }
}
fn r(n: Reg) -> u16 { n.reg_no() as u16 }
/// ISA bit layout of each instruction.
pub(crate) fn isa_encode(i: &SimInstr) -> u16 {
    match *i {
        SimInstr::BR(cc, off) => 0x0000 | ((cc as u16 & 7) << 9) | (off.get() as u16 & 0x1FF),
        SimInstr::ADD(dr, sr1, ImmOrReg::Imm(v)) => 0x1000 | (r(dr) << 9) | (r(sr1) << 6) | 0x20 | (v.get() as u16 & 0x1F),
        SimInstr::ADD(dr, sr1, ImmOrReg::Reg(s)) => 0x1000 | (r(dr) << 9) | (r(sr1) << 6) | r(s),
        SimInstr::LD(dr, off) => 0x2000 | (r(dr) << 9) | (off.get() as u16 & 0x1FF),
        SimInstr::ST(sr, off) => 0x3000 | (r(sr) << 9) | (off.get() as u16 & 0x1FF),
        SimInstr::JSR(ImmOrReg::Imm(off)) => 0x4800 | (off.get() as u16 & 0x7FF),
        SimInstr::JSR(ImmOrReg::Reg(b)) => 0x4000 | (r(b) << 6),
        SimInstr::AND(dr, sr1, ImmOrReg::Imm(v)) => 0x5000 | (r(dr) << 9) | (r(sr1) << 6) | 0x20 | (v.get() as u16 & 0x1F),
        SimInstr::AND(dr, sr1, ImmOrReg::Reg(s)) => 0x5000 | (r(dr) << 9) | (r(sr1) << 6) | r(s),
        SimInstr::LDR(dr, b, off) => 0x6000 | (r(dr) << 9) | (r(b) << 6) | (off.get() as u16 & 0x3F),
        SimInstr::STR(sr, b, off) => 0x7000 | (r(sr) << 9) | (r(b) << 6) | (off.get() as u16 & 0x3F),
        SimInstr::RTI => 0x8000,
        SimInstr::NOT(dr, sr) => 0x9000 | (r(dr) << 9) | (r(sr) << 6) | 0x3F,
        SimInstr::LDI(dr, off) => 0xA000 | (r(dr) << 9) | (off.get() as u16 & 0x1FF),
        SimInstr::STI(sr, off) => 0xB000 | (r(sr) << 9) | (off.get() as u16 & 0x1FF),
        SimInstr::JMP(b) => 0xC000 | (r(b) << 6),
        SimInstr::LEA(dr, off) => 0xE000 | (r(dr) << 9) | (off.get() as u16 & 0x1FF),
        SimInstr::TRAP(v) => 0xF000 | (v.get() & 0xFF),
    }
}

/// C06: decode(w) = Ok(i) exactly for canonical words, and then encode(i) = w; error kinds as stated.
#[kani::proof]
fn decode_inverse() {
    let w: u16 = kani::any();
    kani::cover!(isa_canonical(w), "canonical word reachable");
    kani::cover!(!isa_canonical(w) && (w >> 12) != 0b1101, "non-canonical non-reserved word reachable");
    match SimInstr::decode(w) {
        Ok(i) => {
            assert!(isa_canonical(w), "C06.decode: only canonical words decode");
            assert!(i.encode() == w, "C06.decode: re-encoding a decoded instruction gives back the word");
            assert!(isa_encode(&i) == w, "C06.decode: decoded fields are the ISA fields of the word");
        }
        Err(SimErr::IllegalOpcode) => assert!((w >> 12) == 0b1101, "C06.decode: IllegalOpcode only for the reserved opcode"),
        Err(SimErr::InvalidInstrFormat) => assert!((w >> 12) != 0b1101 && !isa_canonical(w), "C06.decode: InvalidInstrFormat only for non-canonical words"),
        Err(_) => assert!(false, "C06.decode: no other error kind"),
    }
}

/// C06 / C01-(ii): encode(i) is the ISA layout and decode(encode(i)) = i for every representable instruction.
#[kani::proof]
fn encode_spec_and_roundtrip() {
    let i = any_instr();
    let w = i.encode();
    kani::cover!(matches!(i, SimInstr::JSR(ImmOrReg::Reg(_))), "JSRR reachable");
    kani::cover!(matches!(i, SimInstr::TRAP(_)), "TRAP reachable");
    assert!(w == isa_encode(&i), "C01.encode: word is the LC-3 bit layout of the instruction");
    assert!(isa_canonical(w), "C06.encode: encodings are canonical");
    match SimInstr::decode(w) {
        Ok(j) => assert!(j == i, "C06.encode: decoding an encoded instruction gives back the instruction"),
        Err(_) => assert!(false, "C06.encode: every encoding decodes"),
    }
}

/// opcode() is the top nibble of the ISA layout.
#[kani::proof]
fn opcode_spec() {
    let i = any_instr();
    assert!(i.opcode() == isa_encode(&i) >> 12, "C01.opcode: opcode() is the ISA opcode");
}
