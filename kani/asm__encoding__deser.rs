// Kani contracts for `BinaryFormat::deserialize` (overlaid as `crate::asm::encoding::verif_kani_deser`).
// STATUS: NOT REGISTERED -- every harness below ended in CBMC's out-of-memory abort (3-10 min, 5-20 GB); kept as a record (DESIGN section 5 C19, section 8).
// C19 (BOUNDED): the real reader, whole body, on a stream of the form  magic ‖ version ‖ ONE record  whose
// record tag is concrete and whose every other byte — in particular every length / count field, over its
// full 16- or 64-bit range — is symbolic.  Postcondition (from the property): never panics (no overflow,
// no failed unwrap, no slice out of range); returns an object file exactly when the record is complete and
// the stream ends with it, and rejects otherwise.
// Bound: one record per stream, payload area of a few bytes (stated per obligation).  Records whose body is
// text (labels 0x01, source 0x03, relocation 0x04) are taken with a payload area of 0 bytes, so that
// `String::from_utf8` is reached only with the empty slice (UTF-8 validation of symbolic bytes is out of reach).
use super::*;

fn stub_random_state() -> std::hash::RandomState { unsafe { std::mem::transmute::<[u64; 2], std::hash::RandomState>([0, 0]) } }

/// The tail of `deserialize` builds the debug symbols only when a line-table (0x02) or source (0x03) record was read
/// completely.  None of the streams below does that, but CBMC does not prune the `Some` arm of the niche-encoded
/// `Option<(BTreeMap, String)>` and would explore `str` scanning and a sort over unconstrained data there: the two
/// constructors are replaced by functions that fail when reached, i.e. their unreachability is *checked*.
fn unreachable_from_string(_s: String) -> crate::asm::SourceInfo { assert!(false, "harness: SourceInfo::from_string is unreachable without a complete debug record"); loop {} }
fn unreachable_from_blocks<I: IntoIterator<Item = (usize, Vec<u16>)>>(_b: I) -> Option<crate::asm::LineSymbolMap> { assert!(false, "harness: LineSymbolMap::from_blocks is unreachable without a complete debug record"); None }

const HDR: usize = 7; // magic (5) + version (2)
fn stream<const N: usize>(tag: u8) -> [u8; N] {
    let mut b: [u8; N] = kani::any();
    let mut i = 0;
    while i < 5 { b[i] = BFMT_MAGIC[i]; i += 1; }
    b[5] = BFMT_VER[0]; b[6] = BFMT_VER[1];
    b[HDR] = tag;
    b
}

/// Code block record: tag 0x00, addr u16, count u16 (any value 0..=65535), then 3 bytes of payload area.
/// (NOT REGISTERED: CBMC ran out of memory after 8 min on the accepting path -- `collect` into a vector of symbolic
/// capacity, `BTreeMap::insert`; the rejecting paths are `deser_block_record_truncated`.)
/// Accepted exactly for count == 1 (count 0 leaves 3 bytes that must then start a new record: excluded by
/// assumption, the tag of that record being symbolic would open every arm).
#[kani::proof]
#[kani::stub(std::hash::RandomState::new, stub_random_state)] #[kani::stub(crate::asm::SourceInfo::from_string, unreachable_from_string)] #[kani::stub(crate::asm::LineSymbolMap::from_blocks, unreachable_from_blocks)]
#[kani::unwind(6)]
fn deser_block_record() {
    let b = stream::<{ HDR + 1 + 4 + 3 }>(0x00);
    let addr = u16::from_le_bytes([b[8], b[9]]);
    let count = u16::from_le_bytes([b[10], b[11]]);
    kani::assume(count != 0);
    kani::cover!(count == 1, "accepted record reachable");
    kani::cover!(count >= 21846, "count whose byte length exceeds 16 bits reachable");
    let r = BinaryFormat::deserialize(&b[..]);
    match r {
        Some(obj) => {
            assert!(count == 1, "C19.deser.block: accepted only when the declared words are all present");
            assert!(obj.sym.is_none(), "C19.deser.block: no symbol table without label or debug records");
            assert!(obj.block_map.len() == 1, "C19.deser.block: exactly the one block read");
            let blk = obj.block_map.get(&addr);
            assert!(blk.is_some(), "C19.deser.block: the block is recorded at its declared address");
            let blk = blk.unwrap();
            assert!(blk.len() == 1, "C19.deser.block: one word per 3-byte cell");
            let want = if b[12] == 0xFF { Some(u16::from_le_bytes([b[13], b[14]])) } else { None };
            assert!(blk[0] == want, "C19.deser.block: cell = initialised flag + little-endian word");
        }
        None => assert!(count > 1, "C19.deser.block: rejected only when the stream is shorter than the record declares"),
    }
}

/// Code block record that declares more words than the stream holds (count >= 2, all 16 bits, 3 payload bytes):
/// rejected, never a panic -- in particular the byte length 3 * count is computed without overflow.
#[kani::proof]
#[kani::stub(std::hash::RandomState::new, stub_random_state)] #[kani::stub(crate::asm::SourceInfo::from_string, unreachable_from_string)] #[kani::stub(crate::asm::LineSymbolMap::from_blocks, unreachable_from_blocks)]
#[kani::unwind(6)]
fn deser_block_record_truncated() {
    let b = stream::<{ HDR + 1 + 4 + 3 }>(0x00);
    let count = u16::from_le_bytes([b[10], b[11]]);
    kani::assume(count >= 2);
    kani::cover!(count >= 21846, "count whose byte length exceeds 16 bits reachable");
    let r = BinaryFormat::deserialize(&b[..]);
    assert!(r.is_none(), "C19.deser.block: a code block longer than the stream is rejected, never a panic");
}

/// Line-table record: tag 0x02, line u64, count u16 (any value), 2 bytes of payload area.
#[kani::proof]
#[kani::stub(std::hash::RandomState::new, stub_random_state)] #[kani::stub(crate::asm::SourceInfo::from_string, unreachable_from_string)] #[kani::stub(crate::asm::LineSymbolMap::from_blocks, unreachable_from_blocks)]
#[kani::unwind(6)]
fn deser_line_record_truncated() {
    let b = stream::<{ HDR + 1 + 10 + 2 }>(0x02);
    let count = u16::from_le_bytes([b[16], b[17]]);
    kani::assume(count >= 2);
    kani::cover!(count >= 32768, "count whose byte length exceeds 16 bits reachable");
    let r = BinaryFormat::deserialize(&b[..]);
    assert!(r.is_none(), "C19.deser.lines: a line-table record longer than the stream is rejected, never a panic");
}

/// Records with a 64-bit length field (label 0x01, source 0x03, relocation 0x04): any length other than 0 on
/// a stream that ends with the fixed part is rejected without panicking (no `usize` overflow in the cursor).
fn deser_len64<const N: usize>(tag: u8) {
    let b = stream::<N>(tag); // N = header + tag + fixed part of the record (the length field is its last 8 bytes)
    let mut l = [0u8; 8];
    let mut i = 0;
    while i < 8 { l[i] = b[N - 8 + i]; i += 1; }
    let len = u64::from_le_bytes(l);
    kani::assume(len != 0);
    kani::cover!(len == u64::MAX, "maximal length field reachable");
    let r = BinaryFormat::deserialize(&b[..]);
    assert!(r.is_none(), "C19.deser.len64: a text record longer than the stream is rejected, never a panic");
}
#[kani::proof] #[kani::stub(std::hash::RandomState::new, stub_random_state)] #[kani::stub(crate::asm::SourceInfo::from_string, unreachable_from_string)] #[kani::stub(crate::asm::LineSymbolMap::from_blocks, unreachable_from_blocks)] #[kani::unwind(9)]
fn deser_label_record_truncated() { deser_len64::<{ HDR + 1 + 19 }>(0x01) }
#[kani::proof] #[kani::stub(std::hash::RandomState::new, stub_random_state)] #[kani::stub(crate::asm::SourceInfo::from_string, unreachable_from_string)] #[kani::stub(crate::asm::LineSymbolMap::from_blocks, unreachable_from_blocks)] #[kani::unwind(9)]
fn deser_source_record_truncated() { deser_len64::<{ HDR + 1 + 8 }>(0x03) }
#[kani::proof] #[kani::stub(std::hash::RandomState::new, stub_random_state)] #[kani::stub(crate::asm::SourceInfo::from_string, unreachable_from_string)] #[kani::stub(crate::asm::LineSymbolMap::from_blocks, unreachable_from_blocks)] #[kani::unwind(9)]
fn deser_reloc_record_truncated() { deser_len64::<{ HDR + 1 + 10 }>(0x04) }

/// Header and tag: a stream that is too short, carries a wrong magic/version, or whose first record tag is
/// unknown is rejected; the header alone is the empty object file.
#[kani::proof]
#[kani::stub(std::hash::RandomState::new, stub_random_state)] #[kani::stub(crate::asm::SourceInfo::from_string, unreachable_from_string)] #[kani::stub(crate::asm::LineSymbolMap::from_blocks, unreachable_from_blocks)]
#[kani::unwind(9)]
fn deser_header() {
    let b: [u8; 8] = kani::any();
    let n: usize = kani::any();
    kani::assume(n <= 8);
    let mut hdr_ok = true;
    let mut i = 0;
    while i < 5 { if b[i] != BFMT_MAGIC[i] { hdr_ok = false; } i += 1; }
    if b[5] != BFMT_VER[0] || b[6] != BFMT_VER[1] { hdr_ok = false; }
    if n == 8 { kani::assume(!hdr_ok || b[7] > 4); }
    kani::cover!(hdr_ok && n == 7, "bare header reachable");
    kani::cover!(hdr_ok && n == 8, "unknown tag reachable");
    let r = BinaryFormat::deserialize(&b[..n]);
    match r {
        Some(obj) => { assert!(hdr_ok && n == 7, "C19.deser.header: accepted only with the exact magic and version");
                       assert!(obj.block_map.is_empty() && obj.sym.is_none(), "C19.deser.header: a bare header is the empty object file"); }
        None => assert!(!(hdr_ok && n == 7), "C19.deser.header: a bare header is accepted"),
    }
}
