// Kani contract for the constructor `Simulator::new_with_mcr` (overlaid as `crate::sim::verif_kani_new`; a module of its
// own so that the obligations built on sim.rs keep their cache entries).  `reset` is verified against this function's
// contract (C30: sim.rs `reset_contract`); here the constructor's body is checked.
use super::*;
fn stub_random_state() -> std::hash::RandomState { unsafe { std::mem::transmute::<[u64; 2], std::hash::RandomState>([0, 0]) } }
/// `MemArray::new` fills 65536 words through the filler (a loop CBMC cannot unwind): replaced by "arbitrary memory".
fn stub_mem_new(_f: &mut impl mem::WordFiller) -> mem::MemArray {
    let mut m = mem::MemArray::verif_any();
    unsafe { MEM_BASE = m.as_slice_mut().as_ptr() as usize; }
    m
}
/// the random sources behind the Unseeded and Seeded strategies (rand: thread RNG, ChaCha -- SIMD code that crashes the
/// Kani compiler when merely reachable): replaced by "arbitrary value" / "some generator"
fn stub_unit_generate(_f: &mut ()) -> u16 { kani::any() }
fn stub_rng_generate(_f: &mut rand::rngs::StdRng) -> u16 { kani::any() }
fn stub_from_seed(_s: [u8; 32]) -> rand::rngs::StdRng { unsafe { std::mem::zeroed() } }
fn any_strategy() -> MachineInitStrategy {
    match kani::any::<u8>() % 3 { 0 => MachineInitStrategy::Unseeded, 1 => MachineInitStrategy::Seeded { seed: kani::any() }, _ => MachineInitStrategy::Known { value: kani::any() } }
}
/// `FrameStack::new` builds the table of the six built-in trap signatures (a HashMap of Strings: no verdict in 20 min
/// when executed here); replaced by "some frame stack" -- its own obligation is `frame_stack_new` below.
static mut FS_DEBUG: Option<bool> = None;
fn stub_frame_stack_new(debug_frames: bool) -> frame::FrameStack { unsafe { FS_DEBUG = Some(debug_frames); } frame::FrameStack::verif_new(kani::any()) }
/// `<[Word]>::fill` over the 512 words of the I/O page: executed, the 512 array updates exhaust memory in CBMC's
/// propositional encoding (OOM > 20 GB with and without the array theory).  Replaced by its contract restricted to ONE
/// element: the word at the address the harness observes afterwards (IO_PROBE, chosen symbolically beforehand), located
/// through the slice's position inside the memory array.  Observing only that word is a sound use of "every element
/// of the slice equals value"; a fill that does not cover the observed address leaves it arbitrary.
static mut MEM_BASE: usize = 0;
fn stub_fill<T: Clone>(s: &mut [T], value: T) {
    let off = (s.as_ptr() as usize).wrapping_sub(unsafe { MEM_BASE }) / std::mem::size_of::<T>().max(1);
    let p = unsafe { IO_PROBE } as usize;
    if p >= off && p - off < s.len() { s[p - off] = value; }
}
static mut LOADS: u32 = 0;
static mut IO_PROBE: u16 = 0;
static mut IO_ZERO_AT_LOAD: bool = false;
/// contract of `load_os` as used here: it loads the OS image, whose blocks lie below xFE00 (no assembled block reaches
/// the I/O page: C02, `Cursor::shift`), i.e. arbitrary writes below xFE00 and `os_loaded` set; it is called on a
/// machine whose I/O page is already clear or clears nothing of it afterwards (either order satisfies the property).
fn stub_load_os(s: &mut Simulator) {
    unsafe { LOADS += 1; IO_ZERO_AT_LOAD = s.mem[IO_PROBE] == Word::new_init(0); }
    let a: u16 = kani::any();
    if a < IO_START { s.mem[a] = kani::any(); }
    s.os_loaded = true;
}
#[kani::proof]
#[kani::stub(std::hash::RandomState::new, stub_random_state)]
#[kani::stub(mem::MemArray::new, stub_mem_new)]
#[kani::stub(<[mem::Word]>::fill, stub_fill)]
#[kani::stub(Simulator::load_os, stub_load_os)]
#[kani::stub(frame::FrameStack::new, stub_frame_stack_new)]
#[kani::stub(<() as mem::WordFiller>::generate, stub_unit_generate)]
#[kani::stub(<rand::rngs::StdRng as mem::WordFiller>::generate, stub_rng_generate)]
#[kani::stub(<rand::rngs::StdRng as rand::SeedableRng>::from_seed, stub_from_seed)]
#[kani::unwind(9)]
fn new_with_mcr_contract() {
    let fl = SimFlags { strict: kani::any(), use_real_traps: kani::any(), machine_init: any_strategy(),
                        debug_frames: kani::any(), ignore_privilege: kani::any() };
    let mcr: MCR = Arc::default();
    let on: bool = kani::any();
    mcr.store(on, std::sync::atomic::Ordering::Relaxed);
    let mcr0 = Arc::as_ptr(&mcr);
    let probe: u16 = kani::any();
    kani::assume(probe >= IO_START);
    unsafe { IO_PROBE = probe; LOADS = 0; }
    let sim = Simulator::new_with_mcr(fl, mcr);
    assert!(unsafe { LOADS } == 1 && sim.os_loaded, "C29.new: a new simulator holds the OS image (loaded exactly once)");
    assert!(sim.mem[probe] == Word::new_init(0), "C29.new: a new simulator holds (initialized) zeros in the whole I/O page");
    assert!(sim.flags == fl && Arc::as_ptr(&sim.mcr) == mcr0, "C30.new: constructed with the flags and the MCR handle it was given");
    assert!(sim.mcr.load(std::sync::atomic::Ordering::Relaxed) == on, "C30.new: construction does not switch the (shared) machine control register");
    assert!(sim.instructions_run == 0, "C30.new: a new simulator has run nothing");
    assert!(unsafe { FS_DEBUG } == Some(fl.debug_frames), "C30.new: the frame stack is built for the flags given");
    assert!(!sim.hit_halt() && !sim.hit_breakpoint() && sim.breakpoints.is_empty(), "C30.new: a new simulator is neither halted nor at a breakpoint");
    std::mem::forget(sim);
}
/// C30 "those of a new simulator with the same flags (for a deterministic initialization strategy)": with a
/// Known-value strategy the constructor's scalar state is a function of the flags alone.
#[kani::proof]
#[kani::stub(std::hash::RandomState::new, stub_random_state)]
#[kani::stub(mem::MemArray::new, stub_mem_new)]
#[kani::stub(<[mem::Word]>::fill, stub_fill)]
#[kani::stub(Simulator::load_os, stub_load_os)]
#[kani::stub(frame::FrameStack::new, stub_frame_stack_new)]
#[kani::stub(<() as mem::WordFiller>::generate, stub_unit_generate)]
#[kani::stub(<rand::rngs::StdRng as mem::WordFiller>::generate, stub_rng_generate)]
#[kani::stub(<rand::rngs::StdRng as rand::SeedableRng>::from_seed, stub_from_seed)]
#[kani::unwind(9)]
fn new_with_mcr_deterministic() {
    let fl = SimFlags { strict: kani::any(), use_real_traps: kani::any(), machine_init: MachineInitStrategy::Known { value: kani::any() },
                        debug_frames: kani::any(), ignore_privilege: kani::any() };
    let a = Simulator::new_with_mcr(fl, Arc::default());
    let b = Simulator::new_with_mcr(fl, Arc::default());
    let (mut sa, mut sb) = (verif_kani::scalars(&a), verif_kani::scalars(&b));
    sa.depth = 0; sb.depth = 0; // the frame stack is the stub's here; see `frame_stack_new`
    assert!(sa == sb, "C30.new: registers, PC, PSR, saved SP and instruction count of a new simulator depend on the flags only");
    std::mem::forget(a); std::mem::forget(b);
}

// =================================================================================================
// NOT REGISTERED (no verdict: 20 min each, 15 min with the block loop bounded individually -- the slice sort of the
// exemption list and B-tree navigation dominate symbolic execution); kept for the record, see DESIGN.md C29.
// C29: `Simulator::load_obj_file` against the contract of `MemArray::copy_obj_block` (discharged in sim__mem__copy.rs).
// BOUNDED: object files with one or two blocks at concrete addresses and of concrete lengths, no symbol table.
const MAXB: usize = 2;
static mut COPIES: usize = 0;
static mut COPY_ARGS: [(u16, usize, Option<u16>); MAXB] = [(0, 0, None); MAXB];
/// contract stub: records (start, length, first word) of each placed block; memory is changed only through this call
fn contract_copy_obj_block(m: &mut mem::MemArray, start: u16, data: &[Option<u16>]) {
    unsafe {
        if COPIES < MAXB { COPY_ARGS[COPIES] = (start, data.len(), if data.len() > 0 { data[0] } else { None }); }
        COPIES += 1;
    }
    let a: u16 = kani::any();
    if (a.wrapping_sub(start) as usize) < data.len() { m[a] = kani::any(); }
}
fn loaded_machine() -> (Simulator, verif_kani::Scalars, u16, Word) {
    let fl = SimFlags { strict: kani::any(), use_real_traps: kani::any(), machine_init: MachineInitStrategy::Known { value: 0 }, debug_frames: false, ignore_privilege: kani::any() };
    let sim = verif_kani::any_sim_with(fl, DeviceHandler::new());
    let sc = verif_kani::scalars(&sim);
    let probe: u16 = kani::any();
    let w = sim.mem[probe];
    unsafe { COPIES = 0; }
    (sim, sc, probe, w)
}
#[kani::proof]
#[kani::stub(std::hash::RandomState::new, stub_random_state)]
#[kani::stub(mem::MemArray::copy_obj_block, contract_copy_obj_block)]
#[kani::unwind(9)]
fn load_one_block() {
    let (mut sim, sc, probe, w) = loaded_machine();
    let v: Option<u16> = kani::any();
    let mut words = Vec::with_capacity(3);
    words.push(v); words.push(kani::any()); words.push(kani::any());
    let obj = crate::asm::verif_kani_obj::verif_obj_1(0x3000, words);
    let r = sim.load_obj_file(&obj);
    assert!(r.is_ok(), "C29.load: an object file without unresolved externals loads");
    unsafe { assert!(COPIES == 1 && COPY_ARGS[0] == (0x3000, 3, v), "C29.load: exactly the file's blocks are placed, each at its own address and in full"); }
    assert!(verif_kani::scalars(&sim) == sc, "C29.load: loading leaves the registers, the PC and the PSR unchanged");
    if probe.wrapping_sub(0x3000) >= 3 { assert!(sim.mem[probe] == w, "C29.load: every memory word outside the file's blocks is unchanged"); }
    std::mem::forget(sim); std::mem::forget(obj);
}
#[kani::proof]
#[kani::stub(std::hash::RandomState::new, stub_random_state)]
#[kani::stub(mem::MemArray::copy_obj_block, contract_copy_obj_block)]
#[kani::unwind(9)]
fn load_two_blocks() {
    let (mut sim, sc, probe, w) = loaded_machine();
    let (v0, v1): (Option<u16>, Option<u16>) = (kani::any(), kani::any());
    let mut w0 = Vec::with_capacity(2); w0.push(v0); w0.push(kani::any());
    let mut w1 = Vec::with_capacity(1); w1.push(v1);
    // inserted in descending order: the blocks are placed whatever the insertion order
    let obj = crate::asm::verif_kani_obj::verif_obj_2(0x4000, w0, 0x0200, w1);
    let r = sim.load_obj_file(&obj);
    assert!(r.is_ok(), "C29.load: an object file without unresolved externals loads");
    unsafe {
        assert!(COPIES == 2, "C29.load: exactly the file's blocks are placed");
        let a = COPY_ARGS[0]; let b = COPY_ARGS[1];
        assert!((a == (0x4000, 2, v0) && b == (0x0200, 1, v1)) || (b == (0x4000, 2, v0) && a == (0x0200, 1, v1)), "C29.load: each block at its own address and in full");
    }
    assert!(verif_kani::scalars(&sim) == sc, "C29.load: loading leaves the registers, the PC and the PSR unchanged");
    if probe.wrapping_sub(0x4000) >= 2 && probe != 0x0200 { assert!(sim.mem[probe] == w, "C29.load: every memory word outside the file's blocks is unchanged"); }
    std::mem::forget(sim); std::mem::forget(obj);
}

/// NOT REGISTERED (no verdict in 20 min: six HashMap insertions of String-carrying signatures).
/// `FrameStack::new`: depth 0, no frames recorded (and a frame list only when debug frames are requested)
#[kani::proof]
#[kani::stub(std::hash::RandomState::new, stub_random_state)]
#[kani::unwind(9)]
fn frame_stack_new() {
    let d: bool = kani::any();
    let fs = frame::FrameStack::new(d);
    assert!(fs.len() == 0, "C30.new: a new simulator is in no subroutine (frame depth 0)");
    assert!(fs.verif_frames_len() == if d { Some(0) } else { None }, "C27.frames: frames are recorded only with debug_frames, and none initially");
    std::mem::forget(fs);
}

// NOT REGISTERED (out of memory, > 20 GB after 140 s).
// C29 (the precondition "without unresolved externals"): an object file that still has an external symbol is rejected
// and nothing is loaded; BOUNDED: no blocks, one label "A" whose external flag is symbolic.
#[kani::proof]
#[kani::stub(std::hash::RandomState::new, stub_random_state)]
#[kani::stub(mem::MemArray::copy_obj_block, contract_copy_obj_block)]
#[kani::unwind(9)]
fn load_rejects_unresolved_external() {
    let (mut sim, sc, probe, w) = loaded_machine();
    let external: bool = kani::any();
    let obj = crate::asm::verif_kani_obj::verif_obj_label_only(kani::any(), external);
    let r = sim.load_obj_file(&obj);
    match &r {
        Ok(()) => assert!(!external, "C29.external: an object file with an unresolved external symbol is not loaded"),
        Err(SimErr::UnresolvedExternal(name)) => assert!(external && name.as_str() == "A", "C29.external: the rejection names the unresolved symbol"),
        Err(_) => assert!(false, "C29.external: loading fails only for unresolved externals"),
    }
    assert!(unsafe { COPIES } == 0, "C29.load: nothing is placed for a file without blocks / a rejected file");
    assert!(verif_kani::scalars(&sim) == sc && sim.mem[probe] == w, "C29.load: registers, PC, PSR and memory unchanged");
    std::mem::forget(sim); std::mem::forget(obj); std::mem::forget(r);
}
