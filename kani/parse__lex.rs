// Kani contracts for src/parse/lex.rs (overlaid as `crate::parse::lex::verif_kani`).
// C05, text -> value for the token validators, BOUNDED by literal length.  The validators are called
// directly on a lexer positioned over the literal (`Token::lexer` is lazy; `bump(n)` makes `slice()`
// the first n bytes), i.e. under the precondition the token regex establishes; the DFA that selects the
// validator is not executed (out of reach, DESIGN C03).  Reference value: digit fold in the harness.
use super::*;
use logos::Logos;

fn digit(b: u8) -> bool { b >= b'0' && b <= b'9' }
fn hexval(b: u8) -> Option<u32> {
    if digit(b) { Some((b - b'0') as u32) } else if b >= b'a' && b <= b'f' { Some((b - b'a') as u32 + 10) } else if b >= b'A' && b <= b'F' { Some((b - b'A') as u32 + 10) } else { None }
}
fn lexer_over<'a>(s: &'a str) -> Lexer<'a, Token> { let mut lx = Token::lexer(s); lx.bump(s.len()); lx }

/// `R` / `r` followed by D digits names register n exactly when the number is 0..=7 (leading zeros allowed).
fn reg_case<const D: usize>() {
    let mut buf = [b'0'; 5];
    buf[0] = if kani::any() { b'R' } else { b'r' };
    let mut value: u64 = 0;
    let mut i = 0;
    while i < D { let d: u8 = kani::any(); kani::assume(digit(d)); buf[1 + i] = d; value = value * 10 + (d - b'0') as u64; i += 1; }
    let s = std::str::from_utf8(&buf[..1 + D]).unwrap();
    let lx = lexer_over(s);
    kani::cover!(value < 8, "valid register reachable");
    kani::cover!(value >= 8, "invalid register reachable");
    match lex_reg(&lx) {
        Ok(r) => assert!(value < 8 && r as u64 == value, "C05.reg: R followed by digits names the register with that number when it is 0-7"),
        Err(e) => assert!(value >= 8 && matches!(e, LexErr::InvalidReg), "C05.reg: and is rejected otherwise"),
    }
}
#[kani::proof] #[kani::unwind(8)] fn lex_reg_1() { reg_case::<1>() }
#[kani::proof] #[kani::unwind(8)] fn lex_reg_2() { reg_case::<2>() }
#[kani::proof] #[kani::unwind(8)] fn lex_reg_3() { reg_case::<3>() }
#[kani::proof] #[kani::unwind(8)] fn lex_reg_4() { reg_case::<4>() }

/// Unsigned decimal `#?\d+` with D digits: accepted exactly when the value is 0..=65535, and then denotes it.
fn udec_case<const D: usize>(hash: bool) {
    let mut buf = [b'0'; 8];
    let mut n = 0;
    if hash { buf[0] = b'#'; n = 1; }
    let mut value: u64 = 0;
    let mut i = 0;
    while i < D { let d: u8 = kani::any(); kani::assume(digit(d)); buf[n + i] = d; value = value * 10 + (d - b'0') as u64; i += 1; }
    let s = std::str::from_utf8(&buf[..n + D]).unwrap();
    let lx = lexer_over(s);
    match lex_unsigned_dec(&lx) {
        Ok(v) => assert!(value <= 65535 && v as u64 == value, "C05.udec: accepted exactly when the value is in 0..=65535, and denotes it"),
        Err(e) => assert!(value > 65535 && matches!(e, LexErr::DoesNotFitU16), "C05.udec: rejected only when too large"),
    }
}
#[kani::proof] #[kani::unwind(10)] fn lex_udec_1() { udec_case::<1>(kani::any()) }
#[kani::proof] #[kani::unwind(10)] fn lex_udec_3() { udec_case::<3>(kani::any()) }
#[kani::proof] #[kani::unwind(10)] fn lex_udec_5() { udec_case::<5>(kani::any()) }
#[kani::proof] #[kani::unwind(10)] fn lex_udec_6() { udec_case::<6>(kani::any()) }

/// Signed decimal `#?-\d+` with D digits: accepted exactly when -value >= -32768.
fn sdec_case<const D: usize>(hash: bool) {
    let mut buf = [b'0'; 9];
    let mut n = 0;
    if hash { buf[0] = b'#'; n = 1; }
    buf[n] = b'-'; n += 1;
    let mut value: i64 = 0;
    let mut i = 0;
    while i < D { let d: u8 = kani::any(); kani::assume(digit(d)); buf[n + i] = d; value = value * 10 + (d - b'0') as i64; i += 1; }
    let s = std::str::from_utf8(&buf[..n + D]).unwrap();
    let lx = lexer_over(s);
    match lex_signed_dec(&lx) {
        Ok(v) => assert!(value <= 32768 && v as i64 == -value, "C05.sdec: accepted exactly when the value is in -32768..=-0, and denotes it"),
        Err(e) => assert!(value > 32768 && matches!(e, LexErr::DoesNotFitI16), "C05.sdec: rejected only when too small"),
    }
}
#[kani::proof] #[kani::unwind(10)] fn lex_sdec_1() { sdec_case::<1>(kani::any()) }
#[kani::proof] #[kani::unwind(10)] fn lex_sdec_5() { sdec_case::<5>(kani::any()) }

/// Hex `[Xx]h+` with D hex digits (either case): accepted exactly when the value is 0..=65535.
fn uhex_case<const D: usize>() {
    let mut buf = [b'0'; 8];
    buf[0] = if kani::any() { b'X' } else { b'x' };
    let mut value: u64 = 0;
    let mut i = 0;
    while i < D { let d: u8 = kani::any(); let hv = hexval(d); kani::assume(hv.is_some()); buf[1 + i] = d; value = value * 16 + hv.unwrap() as u64; i += 1; }
    let s = std::str::from_utf8(&buf[..1 + D]).unwrap();
    let lx = lexer_over(s);
    match lex_unsigned_hex(&lx) {
        Ok(v) => assert!(value <= 65535 && v as u64 == value, "C05.uhex: accepted exactly when the value is in 0..=65535, and denotes it"),
        Err(e) => assert!(value > 65535 && matches!(e, LexErr::DoesNotFitU16), "C05.uhex: rejected only when too large"),
    }
}
#[kani::proof] #[kani::unwind(10)] fn lex_uhex_1() { uhex_case::<1>() }
#[kani::proof] #[kani::unwind(10)] fn lex_uhex_4() { uhex_case::<4>() }
#[kani::proof] #[kani::unwind(10)] fn lex_uhex_5() { uhex_case::<5>() }
/// Signed hex `[Xx]-h+`: accepted exactly when -value >= -32768.
fn shex_case<const D: usize>() {
    let mut buf = [b'0'; 8];
    buf[0] = if kani::any() { b'X' } else { b'x' };
    buf[1] = b'-';
    let mut value: i64 = 0;
    let mut i = 0;
    while i < D { let d: u8 = kani::any(); let hv = hexval(d); kani::assume(hv.is_some()); buf[2 + i] = d; value = value * 16 + hv.unwrap() as i64; i += 1; }
    let s = std::str::from_utf8(&buf[..2 + D]).unwrap();
    let lx = lexer_over(s);
    match lex_signed_hex(&lx) {
        Ok(v) => assert!(value <= 32768 && v as i64 == -value, "C05.shex: accepted exactly when the value is in -32768..=-0, and denotes it"),
        Err(e) => assert!(value > 32768 && matches!(e, LexErr::DoesNotFitI16), "C05.shex: rejected only when too small"),
    }
}
#[kani::proof] #[kani::unwind(10)] fn lex_shex_4() { shex_case::<4>() }
