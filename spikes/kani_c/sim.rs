
#[cfg(kani)]
mod verif_kani {
    use super::*;

    pub(crate) fn stub_random_state() -> std::hash::RandomState {
        unsafe { std::mem::transmute::<[u64; 2], std::hash::RandomState>([0, 0]) }
    }
    fn any_flags() -> SimFlags {
        SimFlags { strict: false, use_real_traps: kani::any(), machine_init: MachineInitStrategy::Known { value: 0 }, debug_frames: false, ignore_privilege: kani::any() }
    }
    fn any_sim(flags: SimFlags) -> Simulator {
        Simulator {
            mem: MemArray::verif_any(),
            reg_file: RegFile::verif_any(),
            pc: kani::any(),
            psr: PSR(kani::any()),
            saved_sp: kani::any(),
            frame_stack: FrameStack::verif_new(kani::any()),
            alloca: Box::new([]),
            instructions_run: kani::any(),
            prefetch: kani::any(),
            pause_condition: Default::default(),
            observer: Default::default(),
            os_loaded: true,
            mcr: Arc::default(),
            flags,
            breakpoints: Default::default(),
            ireg_mmap: HashMap::new(),
            device_handler: Default::default(),
        }
    }

    #[derive(Clone, Copy)]
    struct MemOp { write: bool, addr: u16, data: Word, privileged: bool, track: bool }
    static mut LOG: [Option<MemOp>; 8] = [None; 8];
    static mut LOG_N: usize = 0;
    fn log_push(op: MemOp) { unsafe { if LOG_N < 8 { LOG[LOG_N] = Some(op); } LOG_N += 1; } }
    fn stub_read_mem(_s: &mut Simulator, addr: u16, ctx: MemAccessCtx) -> Result<Word, SimErr> {
        if !ctx.privileged && !(addr >= 0x3000 && addr < 0xFE00) { return Err(SimErr::AccessViolation); }
        let w: Word = kani::any();
        log_push(MemOp { write: false, addr, data: w, privileged: ctx.privileged, track: ctx.track_access });
        Ok(w)
    }
    fn stub_write_mem(_s: &mut Simulator, addr: u16, data: Word, ctx: MemAccessCtx) -> Result<(), SimErr> {
        if !ctx.privileged && !(addr >= 0x3000 && addr < 0xFE00) { return Err(SimErr::AccessViolation); }
        if ctx.strict && !data.is_init() {
            return Err(if addr >= 0xFE00 { SimErr::StrictIOSetUninit } else { SimErr::StrictMemSetUninit });
        }
        log_push(MemOp { write: true, addr, data, privileged: ctx.privileged, track: ctx.track_access });
        Ok(())
    }
    fn stub_poll(_d: &mut DeviceHandler) -> Option<device::Interrupt> {
        if kani::any() { Some(device::Interrupt::vectored(kani::any(), kani::any())) } else { None }
    }

    // S1: public step_in, all opcodes, interrupts, real/virtual traps; generic sanity contract
    #[kani::proof]
    #[kani::stub(std::hash::RandomState::new, stub_random_state)]
    #[kani::stub(<DeviceHandler as ExternalDevice>::poll_interrupt, stub_poll)]
    #[kani::stub(Simulator::read_mem, stub_read_mem)]
    #[kani::stub(Simulator::write_mem, stub_write_mem)]
    #[kani::unwind(9)]
    fn s1_step_in_generic() {
        let flags = any_flags();
        let mut sim = any_sim(flags);
        kani::assume(sim.frame_stack.len() < u64::MAX);
        let user0 = !sim.psr.privileged() && !flags.ignore_privilege;
        let probe: u16 = kani::any();
        let m0 = sim.mem[probe];
        let r = sim.step_in();
        // C09 flavour: in user mode with no entry sequence, every access is unprivileged
        unsafe {
            let mut i = 0;
            while i < 8 {
                if i < LOG_N { let o = LOG[i].unwrap(); assert!(o.track); if user0 && !sim.psr.privileged() { assert!(!o.privileged); } }
                i += 1;
            }
            assert!(LOG_N <= 5);
        }
        assert!(sim.mem[probe] == m0);
        let _ = sim.prefetch_pc();
        let _ = r;
    }

    // L1 with the internal-register map abstracted by the std contract of HashMap::get
    static IREGS: [InternalRegister; 4] = [InternalRegister::PC, InternalRegister::PSR, InternalRegister::MCR, InternalRegister::SavedSP];
    static mut MAP_ANSWER: Option<usize> = None;
    static mut MAP_ASKED: Option<u16> = None;
    fn stub_map_get<'a, K, V, S, A: std::alloc::Allocator, Q: ?Sized>(_m: &'a HashMap<K, V, S, A>, k: &Q) -> Option<&'a V> {
        // only instantiated at K = u16, V = InternalRegister, Q = u16 in the code under test
        unsafe {
            MAP_ASKED = Some(*(k as *const Q as *const u16));
            match MAP_ANSWER { Some(i) => Some(&*(&IREGS[i] as *const InternalRegister as *const V)), None => None }
        }
    }
    static mut DEV_READS: u32 = 0;
    fn stub_io_read_rec(_d: &mut DeviceHandler, _addr: u16, _eff: bool) -> Option<u16> { unsafe { DEV_READS += 1; } kani::any() }
    #[kani::proof]
    #[kani::stub(std::hash::RandomState::new, stub_random_state)]
    #[kani::stub(observer::AccessObserver::update_mem_accesses, stub_observe)]
    #[kani::stub(<DeviceHandler as ExternalDevice>::io_read, stub_io_read_rec)]
    #[kani::stub(std::collections::HashMap::get, stub_map_get)]
    #[kani::unwind(9)]
    fn l1_read_mem_abstract_map() {
        let mut sim = any_sim(any_flags());
        let ans: Option<usize> = if kani::any() { let i: usize = kani::any(); kani::assume(i < 4); Some(i) } else { None };
        unsafe { MAP_ANSWER = ans; }
        let addr: u16 = kani::any();
        let ctx = MemAccessCtx { privileged: kani::any(), strict: kani::any(), io_effects: kani::any(), track_access: kani::any() };
        let (pc0, psr0, ssp0) = (sim.pc, sim.psr.get(), sim.saved_sp.get());
        let r = sim.read_mem(addr, ctx);
        let in_user = addr >= 0x3000 && addr < 0xFE00;
        unsafe {
            if !ctx.privileged && !in_user { assert!(matches!(r, Err(SimErr::AccessViolation)) && DEV_READS == 0 && { let m = MAP_ASKED; m.is_none() }); }
            else if addr < 0xFE00 { assert!(r.is_ok() && DEV_READS == 0); }
            else {
                assert!(MAP_ASKED == Some(addr));
                let w = r.unwrap();
                match ans {
                    Some(0) => assert!(DEV_READS == 0 && w.get() == pc0),
                    Some(1) => assert!(DEV_READS == 0 && w.get() == psr0),
                    Some(3) => assert!(DEV_READS == 0 && w.get() == ssp0),
                    Some(_) => assert!(DEV_READS == 0),
                    None => assert!(DEV_READS == 1),
                }
            }
        }
        assert!(sim.pc == pc0 && sim.psr.get() == psr0);
    }

    // L1 write_mem at the concrete PSR port with the default internal-register map
    fn stub_observe(_o: &mut observer::AccessObserver, _addr: u16, _set: AccessSet) {}
    fn stub_io_write(_d: &mut DeviceHandler, _addr: u16, _data: u16) -> bool { panic!("device must not be called for a mapped internal register") }
    #[kani::proof]
    #[kani::stub(std::hash::RandomState::new, stub_random_state)]
    #[kani::stub(observer::AccessObserver::update_mem_accesses, stub_observe)]
    #[kani::stub(<DeviceHandler as ExternalDevice>::io_write, stub_io_write)]
    #[kani::unwind(17)]
    fn l1_write_psr_port() {
        let mut sim = any_sim(any_flags());
        sim.ireg_mmap = InternalRegister::default_mmap();
        let data: Word = kani::any();
        let ctx = MemAccessCtx { privileged: kani::any(), strict: kani::any(), io_effects: kani::any(), track_access: kani::any() };
        let pc0 = sim.pc;
        let r = sim.write_mem(0xFFFC, data, ctx);
        if !ctx.privileged { assert!(matches!(r, Err(SimErr::AccessViolation))); }
        else if ctx.strict && !data.is_init() { assert!(matches!(r, Err(SimErr::StrictIOSetUninit))); }
        else { assert!(r.is_ok()); assert!(sim.psr.get() & 0x8700 == data.get() & 0x8700); assert!(sim.mem[0xFFFC] == data); }
        assert!(sim.pc == pc0);
    }

    // C14 relational: strict vs non-strict from the same state and the same read words
    static mut READS: [Word; 6] = [Word::ZERO_INIT; 6];
    static mut READ_I: usize = 0;
    fn stub_read_det(_s: &mut Simulator, addr: u16, ctx: MemAccessCtx) -> Result<Word, SimErr> {
        if !ctx.privileged && !(addr >= 0x3000 && addr < 0xFE00) { return Err(SimErr::AccessViolation); }
        let w = unsafe { let i = READ_I; READ_I += 1; if i < 6 { READS[i] } else { kani::any() } };
        log_push(MemOp { write: false, addr, data: w, privileged: ctx.privileged, track: ctx.track_access });
        Ok(w)
    }
    fn mk(pc: u16, psr: u16, ssp: Word, regs: [Word; 8], depth: u64, flags: SimFlags) -> Simulator {
        let mut s = any_sim(flags);
        s.pc = pc; s.psr = PSR(psr); s.saved_sp = ssp; s.frame_stack = FrameStack::verif_new(depth);
        let mut i = 0u8; while i < 8 { s.reg_file[crate::ast::Reg::try_from(i).unwrap()] = regs[i as usize]; i += 1; }
        s.prefetch = false; s.instructions_run = 0;
        s
    }
    #[kani::proof]
    #[kani::stub(std::hash::RandomState::new, stub_random_state)]
    #[kani::stub(<DeviceHandler as ExternalDevice>::poll_interrupt, stub_poll_none)]
    #[kani::stub(Simulator::read_mem, stub_read_det)]
    #[kani::stub(Simulator::write_mem, stub_write_mem)]
    #[kani::unwind(9)]
    fn c14_relational() {
        let (pc, psr, ssp, regs, depth): (u16, u16, Word, [Word; 8], u64) = (kani::any(), kani::any(), kani::any(), kani::any(), kani::any());
        kani::assume(depth < u64::MAX);
        unsafe { READS = kani::any(); }
        let base = SimFlags { strict: false, use_real_traps: false, machine_init: MachineInitStrategy::Known { value: 0 }, debug_frames: false, ignore_privilege: kani::any() };
        let mut a = mk(pc, psr, ssp, regs, depth, base);
        let mut b = mk(pc, psr, ssp, regs, depth, SimFlags { strict: true, ..base });
        unsafe { READ_I = 0; LOG_N = 0; }
        let ra = a.step_in();
        let na = unsafe { LOG_N };
        unsafe { READ_I = 0; LOG_N = 0; }
        let rb = b.step_in();
        let nb = unsafe { LOG_N };
        if rb.is_ok() {
            assert!(ra.is_ok());
            assert!(a.pc == b.pc && a.psr.get() == b.psr.get() && a.saved_sp == b.saved_sp);
            assert!(a.frame_stack.len() == b.frame_stack.len());
            assert!(na == nb);
        } else if ra.is_ok() {
            assert!(matches!(rb, Err(SimErr::StrictRegSetUninit | SimErr::StrictMemSetUninit | SimErr::StrictIOSetUninit | SimErr::StrictJmpAddrUninit
                | SimErr::StrictSRAddrUninit | SimErr::StrictMemAddrUninit | SimErr::StrictPCCurrUninit | SimErr::StrictPCNextUninit | SimErr::StrictPSRSetUninit)));
        }
    }
    fn stub_poll_none(_d: &mut DeviceHandler) -> Option<device::Interrupt> { None }

    fn stub_io_write_any(_d: &mut DeviceHandler, _addr: u16, _data: u16) -> bool { kani::any() }
    #[kani::proof]
    #[kani::stub(std::hash::RandomState::new, stub_random_state)]
    #[kani::stub(observer::AccessObserver::update_mem_accesses, stub_observe)]
    #[kani::stub(<DeviceHandler as ExternalDevice>::io_write, stub_io_write_any)]
    #[kani::unwind(17)]
    fn l1_write_any_addr_default_map() {
        let mut sim = any_sim(any_flags());
        sim.ireg_mmap = InternalRegister::default_mmap();
        let addr: u16 = kani::any();
        let data: Word = kani::any();
        let ctx = MemAccessCtx { privileged: kani::any(), strict: kani::any(), io_effects: kani::any(), track_access: kani::any() };
        let probe: u16 = kani::any();
        let m0 = sim.mem[probe];
        let (pc0, psr0) = (sim.pc, sim.psr.get());
        let r = sim.write_mem(addr, data, ctx);
        let in_user = addr >= 0x3000 && addr < 0xFE00;
        if !ctx.privileged && !in_user { assert!(matches!(r, Err(SimErr::AccessViolation))); assert!(sim.mem[probe] == m0 && sim.psr.get() == psr0); }
        else if addr < 0xFE00 {
            if ctx.strict && !data.is_init() { assert!(matches!(r, Err(SimErr::StrictMemSetUninit))); assert!(sim.mem[probe] == m0); }
            else { assert!(r.is_ok() && sim.mem[addr] == data); if probe != addr { assert!(sim.mem[probe] == m0); } }
            assert!(sim.psr.get() == psr0);
        } else {
            if probe != addr { assert!(sim.mem[probe] == m0); }
            if addr != 0xFFFC { assert!(sim.psr.get() == psr0); }
            else if r.is_ok() { assert!(sim.psr.get() & 0x8700 == data.get() & 0x8700); }
        }
        assert!(sim.pc == pc0);
    }

    // S2: reset against a stubbed constructor
    static mut NEW_CALLS: u32 = 0;
    static mut NEW_FLAGS: Option<SimFlags> = None;
    static mut IO_RESETS: u32 = 0;
    fn stub_new_with_mcr(flags: SimFlags, mcr: MCR) -> Simulator {
        unsafe { NEW_CALLS += 1; NEW_FLAGS = Some(flags); }
        let mut s = any_sim(flags);
        s.mcr = mcr;
        s.pc = 0x1234; // marker
        s
    }
    fn stub_io_reset(_d: &mut DeviceHandler) { unsafe { IO_RESETS += 1; } }
    #[kani::proof]
    #[kani::stub(std::hash::RandomState::new, stub_random_state)]
    #[kani::stub(Simulator::new_with_mcr, stub_new_with_mcr)]
    #[kani::stub(<DeviceHandler as ExternalDevice>::io_reset, stub_io_reset)]
    #[kani::unwind(9)]
    fn s2_reset_modular() {
        let flags = SimFlags { strict: kani::any(), ..any_flags() };
        let mut sim = any_sim(flags);
        let mcr0 = Arc::clone(&sim.mcr);
        sim.reset();
        unsafe { assert!(NEW_CALLS == 1 && IO_RESETS == 1); assert!(NEW_FLAGS == Some(flags)); }
        assert!(sim.pc == 0x1234);
        assert!(Arc::ptr_eq(&sim.mcr, &mcr0));
        assert!(sim.flags == flags);
    }

    // S4: run_with_limit with step stubbed
    static mut STEPS: u64 = 0;
    fn stub_step(s: &mut Simulator) -> Result<(), StepBreak> {
        unsafe { STEPS += 1; }
        if kani::any() { s.instructions_run = s.instructions_run.wrapping_add(1); Ok(()) }
        else if kani::any() { Err(StepBreak::Halt) } else { Err(StepBreak::Err(SimErr::IllegalOpcode)) }
    }
    #[kani::proof]
    #[kani::stub(std::hash::RandomState::new, stub_random_state)]
    #[kani::stub(Simulator::step, stub_step)]
    #[kani::unwind(9)]
    fn s4_run_with_limit() {
        let mut sim = any_sim(any_flags());
        let n: u64 = kani::any();
        kani::assume(n <= 3);
        let i0 = sim.instructions_run;
        let r = sim.run_with_limit(n);
        unsafe { assert!(STEPS <= n); }
        if r.is_ok() && !sim.hit_halt() { assert!(sim.instructions_run.wrapping_sub(i0) == n); }
        assert!(!sim.mcr.load(std::sync::atomic::Ordering::Relaxed));
    }
}
