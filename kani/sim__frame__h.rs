// Kani contracts for src/sim/frame.rs (overlaid as `crate::sim::frame::verif_kani_h`).
// C27 (frame depth and debug frames), C16 (no panic in push/pop).
use super::*;
use super::verif_kani::stub_random_state;

/// L0: push_frame / pop_frame without debug frames: depth +1 / saturating -1, never panics below u64::MAX.
#[kani::proof]
#[kani::stub(std::hash::RandomState::new, stub_random_state)]
#[kani::unwind(9)]
fn depth_contract() {
    let d: u64 = kani::any();
    kani::assume(d < u64::MAX);
    let mut fs = FrameStack::verif_new(d);
    let regs = RegFile::verif_any();
    let mem = MemArray::verif_any();
    let ft = match kani::any::<u8>() % 3 { 0 => FrameType::Subroutine, 1 => FrameType::Trap, _ => FrameType::Interrupt };
    kani::cover!(d == 0, "depth zero reachable");
    fs.push_frame(kani::any(), kani::any(), ft, &regs, &mem);
    assert!(fs.len() == d + 1, "C27.push: depth + 1");
    assert!(fs.frames().is_none(), "C27.push: no frame list without debug frames");
    fs.pop_frame();
    assert!(fs.len() == d, "C27.pop: depth - 1");
    let mut z = FrameStack::verif_new(0);
    z.pop_frame();
    assert!(z.len() == 0 && z.is_empty(), "C27.pop: saturates at zero");
}

/// C27 with debug frames, no signature registered for the callee: the frame records caller, callee, kind.
/// (PRE = number of frames already on the list; concrete sizes: allocations of symbolic size are what CBMC cannot digest.)
fn debug_frame_case<const PRE: usize>() {
    let d: u64 = kani::any();
    kani::assume(d < u64::MAX);
    let mut frames: Vec<Frame> = Vec::with_capacity(4);
    let mut i = 0;
    while i < PRE { frames.push(Frame { caller_addr: 1, callee_addr: 2, frame_type: FrameType::Trap, frame_ptr: None, arguments: Vec::new() }); i += 1; }
    let mut fs = FrameStack::verif_with_frames(d, frames);
    let regs = RegFile::verif_any();
    let mem = MemArray::verif_any();
    let (caller, callee): (u16, u16) = (kani::any(), kani::any());
    let k: u8 = kani::any();
    kani::assume(k < 3);
    let ft = match k { 0 => FrameType::Subroutine, 1 => FrameType::Trap, _ => FrameType::Interrupt };
    fs.push_frame(caller, callee, ft, &regs, &mem);
    assert!(fs.len() == d + 1, "C27.debug: depth + 1");
    assert!(fs.verif_frames_len() == Some(PRE + 1), "C27.debug: exactly one entry added");
    {
        let fr = fs.frames().unwrap();
        let top = &fr[PRE];
        assert!(top.caller_addr == caller && top.callee_addr == callee && top.frame_type == ft, "C27.debug: entry holds caller, callee and kind");
        assert!(top.frame_ptr.is_none() && top.arguments.is_empty(), "C27.debug: no signature -> no arguments");
    }
    fs.pop_frame();
    assert!(fs.len() == d && fs.verif_frames_len() == Some(PRE), "C27.debug: pop removes the entry");
    std::mem::forget(fs);
}
#[kani::proof] #[kani::stub(std::hash::RandomState::new, stub_random_state)] #[kani::unwind(9)]
fn debug_frame_0() { debug_frame_case::<0>() }
#[kani::proof] #[kani::stub(std::hash::RandomState::new, stub_random_state)] #[kani::unwind(9)]
fn debug_frame_1() { debug_frame_case::<1>() }

/// C27: arguments described by a pass-by-register signature (N parameters) or the standard calling
/// convention (N parameters, read from FP+4.. where FP = R6 - 4).
fn arguments_case<const N: usize>() {
    let regs = RegFile::verif_any();
    let mem = MemArray::verif_any();
    let snapshot = regs.verif_snapshot();
    let (a, b): (u8, u8) = (kani::any(), kani::any());
    kani::assume(a < 8 && b < 8);
    let (ra, rb) = (Reg::try_from(a).unwrap(), Reg::try_from(b).unwrap());
    let mut params: Vec<(String, Reg)> = Vec::with_capacity(2);
    if N >= 1 { params.push((String::new(), ra)); }
    if N >= 2 { params.push((String::new(), rb)); }
    let pl = ParameterList::PassByRegister { params, ret: None };
    let args = pl.get_arguments(&regs, &mem, kani::any());
    assert!(args.len() == N, "C27.args: one argument per parameter");
    if N >= 1 { assert!(args[0] == snapshot[a as usize], "C27.args: first argument from its register"); }
    if N >= 2 { assert!(args[1] == snapshot[b as usize], "C27.args: second argument from its register"); }
    let fp: u16 = kani::any();
    let mut names: Vec<String> = Vec::with_capacity(2);
    if N >= 1 { names.push(String::new()); }
    if N >= 2 { names.push(String::new()); }
    let pl2 = ParameterList::CallingConvention { params: names };
    let args2 = pl2.get_arguments(&regs, &mem, fp);
    assert!(args2.len() == N, "C27.args: one argument per parameter (calling convention)");
    if N >= 1 { assert!(args2[0] == mem[fp.wrapping_add(4)], "C27.args: first argument at FP+4"); }
    if N >= 2 { assert!(args2[1] == mem[fp.wrapping_add(5)], "C27.args: second argument at FP+5"); }
    std::mem::forget((pl, pl2, args, args2));
}
#[kani::proof] #[kani::unwind(9)] fn arguments_0() { arguments_case::<0>() }
#[kani::proof] #[kani::unwind(9)] fn arguments_1() { arguments_case::<1>() }
#[kani::proof] #[kani::unwind(9)] fn arguments_2() { arguments_case::<2>() }

// (An obligation with a signature registered -- twice -- for a callee at a concrete address, i.e. two HashMap<u16,_>
//  inserts and two lookups, ran out of memory at 16 GB after 12 min: see DESIGN section 8.)
