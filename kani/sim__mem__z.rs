// Helper (no obligations), overlaid as `crate::sim::mem::verif_kani_z`: a memory array obtained from one zeroed
// allocation (every word uninitialized with data 0 -- what `MemArray::new` yields for the strategy Known { value: 0 }),
// without running the 65536-iteration filler loop.
use super::*;
pub(crate) fn verif_zeroed() -> MemArray { MemArray(unsafe { Box::<[Word; 1 << 16]>::new_zeroed().assume_init() }) }
