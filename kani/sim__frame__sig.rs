// Kani contracts for src/sim/frame.rs (overlaid as `crate::sim::frame::verif_kani_sig`).
// C27 (BOUNDED): which registered signature `push_frame` consults with debug frames on.  One signature is
// registered (trap table, vector x21, standard calling convention with no named parameter: the entry carries
// no text, map insertion with `String`s is out of reach); kind and callee address are concrete per obligation
// (hashing a symbolic key does not finish), registers and memory are symbolic.
//   * a TRAP frame whose vector is registered gets a frame pointer (R6 - 4) and the signature's arguments;
//   * a subroutine or interrupt frame never consults the trap table, whatever its address, and a trap frame
//     consults it with its full address (x0121 is not vector x21).
use super::*;
use super::verif_kani::stub_random_state;

fn sig_case<const KIND: u8, const CALLEE: u16, const FOUND: bool>() {
    let d: u64 = kani::any();
    kani::assume(d < u64::MAX);
    let mut fs = FrameStack::verif_with_frames(d, Vec::with_capacity(2));
    fs.trap_defns.insert(0x21, ParameterList::CallingConvention { params: Vec::new() });
    let regs = RegFile::verif_any();
    let mem = MemArray::verif_any();
    let caller: u16 = kani::any();
    let ft = match KIND { 0 => FrameType::Subroutine, 1 => FrameType::Trap, _ => FrameType::Interrupt };
    let r6 = regs[R6];
    fs.push_frame(caller, CALLEE, ft, &regs, &mem);
    assert!(fs.len() == d + 1 && fs.verif_frames_len() == Some(1), "C27.sig: depth + 1, exactly one entry added");
    {
        let top = &fs.frames().unwrap()[0];
        assert!(top.caller_addr == caller && top.callee_addr == CALLEE && top.frame_type == ft, "C27.sig: entry holds caller, callee and kind");
        if FOUND {
            assert!(top.frame_ptr == Some(r6 - Word::new_init(4)), "C27.sig: a frame with a registered calling-convention signature records FP = R6 - 4");
            assert!(top.arguments.is_empty(), "C27.sig: as many arguments as the signature names");
        } else {
            assert!(top.frame_ptr.is_none() && top.arguments.is_empty(), "C27.sig: the signature of a trap vector is used for TRAP frames of that vector only");
        }
    }
    std::mem::forget(fs);
}
macro_rules! sig_harness { ($name:ident, $k:expr, $c:expr, $f:expr) => {
    #[kani::proof] #[kani::stub(std::hash::RandomState::new, stub_random_state)] #[kani::unwind(9)]
    fn $name() { sig_case::<$k, $c, $f>() }
} }
sig_harness!(sig_trap_registered, 1, 0x21, true);
sig_harness!(sig_trap_other_vector, 1, 0x23, false);
sig_harness!(sig_trap_wide_address, 1, 0x121, false);
sig_harness!(sig_interrupt_same_low_byte, 2, 0x121, false);
sig_harness!(sig_interrupt_same_address, 2, 0x21, false);
sig_harness!(sig_subroutine_same_address, 0, 0x21, false);

/// C27: `set_subroutine_def` overwrites a previous definition of the same subroutine ("This will overwrite any
/// preexisting definition"): after two registrations the second one is what `get_subroutine_def` returns.
#[kani::proof] #[kani::stub(std::hash::RandomState::new, stub_random_state)] #[kani::unwind(9)]
fn sig_redefinition_overwrites() {
    let mut fs = FrameStack::verif_new(kani::any());
    fs.set_subroutine_def(0x3000, ParameterList::CallingConvention { params: Vec::new() });
    fs.set_subroutine_def(0x3000, ParameterList::PassByRegister { params: Vec::new(), ret: Some(R0) });
    let got = fs.get_subroutine_def(0x3000);
    assert!(matches!(got, Some(ParameterList::PassByRegister { ret: Some(R0), .. })), "C27.sig: the latest definition of a subroutine is the one in force");
    assert!(fs.get_trap_def(0x30).is_none(), "C27.sig: subroutine definitions do not leak into the trap table");
    std::mem::forget(fs);
}
