// Kani contracts for src/err.rs (overlaid as `crate::err::verif_kani`).
// C26: every span list constructible through the public `From` / `Extend` impls -- including the empty
// list that both link errors carry (`AsmErr::new(kind, [])`) -- can be queried (`first`, `iter`) without
// panicking; `first()` is the first span given when there is one.
use super::*;

fn any_span() -> Span { let (a, b): (usize, usize) = (kani::any(), kani::any()); a..b }

fn check(es: &ErrSpan, given: &[Span]) {
    let f = es.first();                       // must not panic
    if !given.is_empty() { assert!(f == given[0], "C26.first: the first span is the first one given"); }
    let mut n = 0;
    for (i, s) in es.iter().enumerate() {     // must not panic
        if i < given.len() { assert!(*s == given[i], "C26.iter: spans come back in order"); }
        n += 1;
    }
    assert!(n == given.len(), "C26.iter: exactly the spans given");
}

#[kani::proof] #[kani::unwind(6)]
fn errspan_from_array_0() { let es = ErrSpan::from([]); check(&es, &[]); }
#[kani::proof] #[kani::unwind(6)]
fn errspan_from_array_1() { let a = any_span(); let es = ErrSpan::from([a.clone()]); check(&es, &[a]); }
#[kani::proof] #[kani::unwind(6)]
fn errspan_from_array_2() { let (a, b) = (any_span(), any_span()); let es = ErrSpan::from([a.clone(), b.clone()]); check(&es, &[a, b]); }
#[kani::proof] #[kani::unwind(6)]
fn errspan_from_array_3() { let (a, b, c) = (any_span(), any_span(), any_span()); let es = ErrSpan::from([a.clone(), b.clone(), c.clone()]); check(&es, &[a, b, c]); }
#[kani::proof] #[kani::unwind(6)]
fn errspan_from_span() { let a = any_span(); let es = ErrSpan::from(a.clone()); check(&es, &[a]); }
fn from_vec_case<const K: usize>() {
    let g = [any_span(), any_span(), any_span(), any_span()];
    let mut v: Vec<Span> = Vec::with_capacity(4);
    let mut i = 0;
    while i < K { v.push(g[i].clone()); i += 1; }
    let es = ErrSpan::from(v);
    check(&es, &g[..K]);
}
#[kani::proof] #[kani::unwind(6)] fn errspan_from_vec_0() { from_vec_case::<0>() }
#[kani::proof] #[kani::unwind(6)] fn errspan_from_vec_1() { from_vec_case::<1>() }
#[kani::proof] #[kani::unwind(6)] fn errspan_from_vec_2() { from_vec_case::<2>() }
#[kani::proof] #[kani::unwind(6)] fn errspan_from_vec_3() { from_vec_case::<3>() }
/// start from one span, extend by K more (One -> Two -> Many transitions)
fn extend_case<const K: usize>() {
    let g = [any_span(), any_span(), any_span(), any_span()];
    let mut es = ErrSpan::from(g[0].clone());
    let mut extra: Vec<Span> = Vec::with_capacity(3);
    let mut i = 0;
    while i < K { extra.push(g[i + 1].clone()); i += 1; }
    es.extend(extra);
    check(&es, &g[..K + 1]);
}
#[kani::proof] #[kani::unwind(6)] fn errspan_extend_0() { extend_case::<0>() }
#[kani::proof] #[kani::unwind(6)] fn errspan_extend_1() { extend_case::<1>() }
#[kani::proof] #[kani::unwind(6)] fn errspan_extend_2() { extend_case::<2>() }
#[kani::proof] #[kani::unwind(6)] fn errspan_extend_3() { extend_case::<3>() }
