// Helpers for the Kani contracts of src/sim/frame.rs (overlaid as `crate::sim::frame::verif_kani`); the obligations
// themselves are in sim__frame__h.rs (kept apart so that editing them does not invalidate the simulator obligations' cache).
// C27 (frame depth and debug frames), C16 (no panic in push/pop).
use super::*;

pub(crate) fn stub_random_state() -> std::hash::RandomState {
    // RandomState::new() reads OS randomness (not modelled by Kani). Hash keys do not affect map semantics.
    unsafe { std::mem::transmute::<[u64; 2], std::hash::RandomState>([0, 0]) }
}

impl FrameStack {
    /// A frame stack at an arbitrary depth without debug frames (`debug_frames = false`).
    pub(crate) fn verif_new(depth: u64) -> Self {
        FrameStack { frame_no: depth, trap_defns: HashMap::new(), sr_defns: HashMap::new(), frames: None }
    }
    pub(crate) fn verif_with_frames(depth: u64, frames: Vec<Frame>) -> Self {
        FrameStack { frame_no: depth, trap_defns: HashMap::new(), sr_defns: HashMap::new(), frames: Some(frames) }
    }
    pub(crate) fn verif_frames_len(&self) -> Option<usize> { self.frames.as_ref().map(|f| f.len()) }
}

/// Contract stub of `FrameStack::push_frame` for the L2 step obligations: depth + 1 (discharged by `depth_contract`)
/// and, with debug frames on, one entry holding exactly the caller, callee and kind passed (discharged by
/// `debug_frame_*`).  Records what it was called with so that the step obligations can compare the frame the
/// real step pushes with the one the ISA reference prescribes.
pub(crate) static mut PUSHED: [Option<(u16, u16, u8)>; 2] = [None; 2];
pub(crate) static mut PUSHED_N: usize = 0;
pub(crate) fn contract_push_frame(fs: &mut FrameStack, caller: u16, callee: u16, frame_type: FrameType, _regs: &RegFile, _mem: &MemArray) {
    fs.frame_no += 1;
    let k = match frame_type { FrameType::Subroutine => 0, FrameType::Trap => 1, FrameType::Interrupt => 2 };
    unsafe { if PUSHED_N < 2 { PUSHED[PUSHED_N] = Some((caller, callee, k)); } PUSHED_N += 1; }
}
