}
#[cfg(kani)]
mod verif_kani {
    use super::*;

    #[kani::proof]
    fn decode_encode_roundtrip() {
        let w: u16 = kani::any();
        match SimInstr::decode(w) {
            Ok(i) => assert!(i.encode() == w),
            Err(_) => {}
        }
    }
}
