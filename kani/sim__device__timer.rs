// Kani contracts for src/sim/device/timer.rs (overlaid as `crate::sim::device::timer::verif_kani`).
// C34 leaf: `SampleRange::new` maps the std range forms to (start, end, inclusive) denoting the same set of
// values.  (The countdown and the interval lemma are the Verus unit `timer`.)
use super::*;

fn member(s: &SampleRange, t: u32) -> bool { s.start <= t && (if s.end_incl { t <= s.end } else { t < s.end }) }
#[kani::proof]
fn sample_range_new() {
    let (a, b, t): (u32, u32, u32) = (kani::any(), kani::any(), kani::any());
    assert!(member(&SampleRange::new(a..=b), t) == (a <= t && t <= b), "C34.range: a..=b");
    assert!(member(&SampleRange::new(a..b), t) == (a <= t && t < b), "C34.range: a..b");
    assert!(member(&SampleRange::new(a..), t) == (a <= t), "C34.range: a..");
    assert!(member(&SampleRange::new(..b), t) == (t < b), "C34.range: ..b");
    assert!(member(&SampleRange::new(..=b), t) == (t <= b), "C34.range: ..=b");
    assert!(member(&SampleRange::new(..), t), "C34.range: ..");
    let s = SampleRange::new(a..=a);
    assert!(s.start == a && s.end == a && s.end_incl, "C34.range: an exact count n is the range n..=n");
    // RangeBounds view of a SampleRange denotes the same set
    let r = SampleRange::new(a..b);
    assert!(r.contains(&t) == (a <= t && t < b), "C34.range: get_range() denotes the configured range");
}
