// Kani contract for the seeding of the timer (C34 "the same seed gives the same sequence"), overlaid as
// `crate::sim::device::timer::verif_kani_seed`.  `StdRng` (ChaCha, crate rand) is deterministic in its seed -- assumed,
// the generator is not executed -- so the sequence of counts a timer draws is a function of the generator's seed, the
// configured range and the order of draws.  Checked here: a timer constructed with `Some(seed)` builds its generator
// from that seed and from nothing else (not depending on the range, vector or priority).  A seeded construction that
// reaches the OS entropy source ends in a foreign function (getrandom -> dlsym) Kani cannot execute: undecided, no alarm.
use super::*;
use rand::RngCore;
static mut NSEED: usize = 0;
static mut SEEDS: [[u8; 32]; 2] = [[0; 32]; 2];
/// `StdRng::from_seed`: records the 32 seed bytes (the expansion of the u64 seed by rand_core's `seed_from_u64` runs for real)
fn stub_from_seed(s: [u8; 32]) -> rand::rngs::StdRng {
    unsafe { if NSEED < 2 { SEEDS[NSEED] = s; } NSEED += 1; std::mem::zeroed() }
}
fn any_u32(_g: &mut rand::rngs::StdRng) -> u32 { kani::any() }
fn any_u64(_g: &mut rand::rngs::StdRng) -> u64 { kani::any() }
/// BOUNDED: two concrete ranges (an exact count and a proper range) and one concrete seed; vectors and priorities symbolic.
#[kani::proof]
#[kani::stub(<rand::rngs::StdRng as rand::SeedableRng>::from_seed, stub_from_seed)]
#[kani::stub(<rand::rngs::StdRng as RngCore>::next_u32, any_u32)]
#[kani::stub(<rand::rngs::StdRng as RngCore>::next_u64, any_u64)]
#[kani::unwind(34)]
fn seed_determines_generator() {
    // (with a symbolic seed the equality of the two 8-round multiplicative expansions did not finish in 12 min)
    let seed: u64 = 0x0123_4567_89AB_CDEF;
    unsafe { NSEED = 0; }
    let t1 = TimerDevice::new(Some(seed), 5..=5u32, kani::any(), kani::any());
    let t2 = TimerDevice::new(Some(seed), 3..=7u32, kani::any(), kani::any());
    unsafe {
        assert!(NSEED == 2, "C34.seed: a seeded timer builds exactly one generator");
        assert!(SEEDS[0] == SEEDS[1], "C34.seed: timers given the same seed start from the same generator state, whatever their range, vector and priority");
    }
    assert!(t1.time == 5 && 3 <= t2.time && t2.time <= 7 && !t1.enabled && !t2.enabled, "C34.new: a new timer is disabled and holds a count inside its range");
    std::mem::forget(t1); std::mem::forget(t2);
}
