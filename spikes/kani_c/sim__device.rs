}
#[cfg(kani)]
mod verif_kani {
    use super::*;

    struct Rec;
    static mut REC_READS: u32 = 0;
    impl ExternalDevice for Rec {
        fn io_read(&mut self, _addr: u16, _e: bool) -> Option<u16> { unsafe { REC_READS += 1; } Some(0x55) }
        fn io_write(&mut self, _addr: u16, _d: u16) -> bool { true }
        fn io_reset(&mut self) {}
        fn poll_interrupt(&mut self) -> Option<Interrupt> { None }
    }

    fn wf(h: &DeviceHandler) -> bool {
        let n = h.devices.len();
        if n < 3 { return false; }
        let mut i = 0;
        while i < DEVICE_SLOTS { if (h.io_ports[i] as usize) >= n { return false; } i += 1; }
        h.io_ports[0] == 1 && h.io_ports[2] == 1 && h.io_ports[4] == 2 && h.io_ports[6] == 2
    }

    static mut SLOT_CALLED: *const internals::SimDevice = std::ptr::null();
    static mut SLOT_CALLS: u32 = 0;
    static mut SLOT_ADDR: u16 = 0;
    fn stub_slot_read(d: &mut internals::SimDevice, addr: u16, _e: bool) -> Option<u16> {
        unsafe { SLOT_CALLED = d as *const _; SLOT_CALLS += 1; SLOT_ADDR = addr; }
        kani::any()
    }
    #[kani::proof]
    #[kani::stub(<internals::SimDevice as ExternalDevice>::io_read, stub_slot_read)]
    #[kani::unwind(6)]
    fn io_read_dispatch_slot() {
        let ports: [u16; DEVICE_SLOTS] = kani::any();
        let mut devices = Vec::with_capacity(8);
        devices.push(internals::SimDevice::Null); devices.push(internals::SimDevice::Null);
        devices.push(internals::SimDevice::Null); devices.push(internals::SimDevice::Null);
        let mut h = DeviceHandler { devices, io_ports: Box::new(ports) };
        let p: u16 = kani::any();
        kani::assume(match h.get_dev_id(p) { Some(d) => (d as usize) < 4, None => true });
        let owner = h.get_dev_id(p);
        let r = h.io_read(p, kani::any());
        unsafe {
            match owner {
                None => { assert!(p < 0xFE00 && r.is_none() && SLOT_CALLS == 0); }
                Some(d) => { assert!(p >= 0xFE00 && SLOT_CALLS == 1 && SLOT_ADDR == p); assert!(SLOT_CALLED == &h.devices[d as usize] as *const _); }
            }
        }
    }

    // pointwise representation invariant: checked/assumed at symbolic witnesses only
    fn wf_at(h: &DeviceHandler, port: u16) -> bool {
        let n = h.devices.len();
        if n < 3 { return false; }
        match h.get_dev_id(port) { Some(d) => (d as usize) < n && (port != KBSR && port != KBDR || d == 1) && (port != DSR && port != DDR || d == 2), None => port < 0xFE00 }
    }
    #[kani::proof]
    #[kani::unwind(6)]
    fn add_device_pointwise() {
        let ports: [u16; DEVICE_SLOTS] = kani::any();
        let extra: bool = kani::any();
        let mut devices = Vec::with_capacity(8);
        devices.push(internals::SimDevice::Null); devices.push(internals::SimDevice::Null); devices.push(internals::SimDevice::Null);
        if extra { devices.push(internals::SimDevice::Null); }
        let mut h = DeviceHandler { devices, io_ports: Box::new(ports) };
        let n0 = h.devices.len();
        let p: u16 = kani::any();
        let probe: u16 = kani::any();
        kani::assume(wf_at(&h, p) && wf_at(&h, probe));
        let owner_probe0 = h.get_dev_id(probe);
        let owner_p0 = h.get_dev_id(p);
        let r = h.add_device(NullDevice, &[p]);
        match r {
            Ok(id) => {
                assert!(p >= 0xFE00 && owner_p0 == Some(0));
                assert!(id as usize == n0 && h.devices.len() == n0 + 1);
                assert!(h.get_dev_id(p) == Some(id));
                if probe != p { assert!(h.get_dev_id(probe) == owner_probe0); }
            }
            Err(_) => {
                assert!(!(p >= 0xFE00 && owner_p0 == Some(0)));
                assert!(h.devices.len() == n0 && h.get_dev_id(probe) == owner_probe0);
            }
        }
        assert!(wf_at(&h, p) && wf_at(&h, probe));
    }

    #[kani::proof]
    #[kani::unwind(514)]
    fn add_device_contract() {
        let ports: [u16; DEVICE_SLOTS] = kani::any();
        let extra: bool = kani::any();
        let mut devices = vec![internals::SimDevice::Null, internals::SimDevice::Null, internals::SimDevice::Null];
        if extra { devices.push(internals::SimDevice::Null); }
        let mut h = DeviceHandler { devices, io_ports: Box::new(ports) };
        kani::assume(wf(&h));
        let n0 = h.devices.len();
        let p: u16 = kani::any();
        let probe: u16 = kani::any();
        kani::assume(probe >= 0xFE00);
        let owner_probe0 = h.get_dev_id(probe).unwrap();
        let owner_p0 = h.get_dev_id(p);
        let r = h.add_device(Rec, &[p]);
        match r {
            Ok(id) => {
                assert!(p >= 0xFE00 && owner_p0 == Some(0));
                assert!(id as usize == n0 && h.devices.len() == n0 + 1);
                assert!(h.get_dev_id(p) == Some(id));
                if probe != p { assert!(h.get_dev_id(probe) == Some(owner_probe0)); }
                assert!(h.io_read(p, true) == Some(0x55));
            }
            Err(_) => {
                assert!(!(p >= 0xFE00 && owner_p0 == Some(0)));
                assert!(h.devices.len() == n0 && h.get_dev_id(probe) == Some(owner_probe0));
            }
        }
        assert!(wf(&h));
    }
}
