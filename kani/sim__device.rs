// Helpers for the Kani contracts of src/sim/device.rs (overlaid as `crate::sim::device::verif_kani`): constructors of
// symbolic device handlers and the pointwise representation invariant.  The obligations themselves are in
// sim__device__h.rs (kept apart so that editing them does not invalidate the cache of the simulator obligations).
// C32 (port table invariant, dispatch), C10 (device arbitration), C34/C10 leaf (`Interrupt`).
//
// Never let CBMC resolve `Box<dyn ExternalDevice>` calls (every implementor incl. RwLock/Mutex
// wrappers gets dragged in).  `<SimDevice as ExternalDevice>::*` are replaced by recording stubs that
// log which slot was called: the device's own contract is "any result; it cannot touch the simulator"
// (guaranteed by its `&mut self` signature), which is exactly what an arbitrary return value models.
use super::*;

// ---- helpers shared with the simulator harnesses ------------------------------------------------
impl DeviceHandler {
    /// A handler with `n` Null devices and an arbitrary (symbolic) port table.
    pub(crate) fn verif_any(n: usize) -> Self {
        let ports: [u16; DEVICE_SLOTS] = kani::any();
        let mut devices = Vec::with_capacity(8);
        let mut i = 0;
        while i < n { devices.push(internals::SimDevice::Null); i += 1; }
        DeviceHandler { devices, io_ports: Box::new(ports) }
    }
    /// A handler that is never consulted (harnesses that replace every device entry point by a contract stub).
    pub(crate) fn verif_ports_ptr(&self) -> *const u16 { self.io_ports.as_ptr() }
    pub(crate) fn verif_unused() -> Self { DeviceHandler::new() }
}

/// Pointwise representation invariant of the port table at one port (used at symbolic witnesses
/// instead of a 512-iteration loop): an owner id is a valid device index; keyboard and display ports
/// stay reserved for devices 1 and 2; non-I/O addresses have no owner.
pub(crate) fn wf_at(h: &DeviceHandler, port: u16) -> bool {
    let n = h.devices.len();
    if n < 3 { return false; }
    match h.get_dev_id(port) {
        Some(d) => port >= 0xFE00 && (d as usize) < n
            && ((port != KBSR && port != KBDR) || d == 1)
            && ((port != DSR && port != DDR) || d == 2),
        None => port < 0xFE00,
    }
}
