#!/usr/bin/env python3
"""Reads /verif/seeded/matrix.log (+ per-run stdout kept under /verif/seeded/<id>/detection.txt), updates each seed's meta.json
with what the registered check reported, and prints the markdown table used in DESIGN.md section 10."""
import json, os, re, sys
root = "/verif/seeded"
rows = {}
for line in open(os.path.join(root, "matrix.log")):
    m = re.match(r"(\S+) (\S+) only=\[(.*?)\] rc=(\d+)\s+(.*)", line.strip())
    if not m: continue
    sid, prop, only, rc, rest = m.groups()
    viol = re.findall(r"VIOLATION property=\S+ replay=\S*/(\S+?)\.json( no-failing-input-found)?", rest)
    summ = re.search(r"(\d+)/(\d+) obligations discharged, (\d+) violated, (\d+) undecided", rest)
    rows[sid] = {"property": prop, "only": only, "rc": int(rc), "violated_obligations": [v[0].split("-", 1)[1] if "-" in v[0] else v[0] for v in viol],
                 "summary": summ.group(0) if summ else rest[-120:]}
for sid, r in sorted(rows.items()):
    mp = os.path.join(root, sid, "meta.json")
    if not os.path.exists(mp): continue
    meta = json.load(open(mp))
    meta["detection"] = {"command": f"./check {r['property']} --tier quick" + (f"  (obligations restricted with VERIF_ONLY='{r['only']}' to those the change can affect)" if r["only"] else "") +
                                    " run through tools/try_seed.sh against a scratch worktree with patch.diff applied",
                         "exit_code": r["rc"], "detected": r["rc"] == 1, "failed_obligations": r["violated_obligations"], "summary": r["summary"]}
    json.dump(meta, open(mp, "w"), indent=1)
print("| seed | property | change | needs | detected | failing obligation(s) |")
print("|---|---|---|---|---|---|")
for sid in sorted(os.listdir(root)):
    mp = os.path.join(root, sid, "meta.json")
    if not os.path.exists(mp): continue
    meta = json.load(open(mp)); d = meta.get("detection")
    det = "not run" if not d else ("**yes**" if d["detected"] else ("undecided (exit 2)" if d["exit_code"] == 2 else "no"))
    obl = ", ".join(d["failed_obligations"][:3]) + (" …" if d and len(d["failed_obligations"]) > 3 else "") if d else ""
    print(f"| {sid} | {meta['property']} | {meta['change']} | {meta['needs_to_manifest']} | {det} | {obl} |")
